package mc

import (
	"fmt"
	"hash/fnv"
	"strings"
	"time"

	"verif/vrt"
)

// Tr is the context of one transition of a Mode-S model.
type Tr struct {
	fails []Failure
	env   []int
	pts   []int // arity of each environment draw met
	Label string
	notes []string
	// Depth of the state the transition starts from.
	Depth int
	// Nontrivial is set by the model when the transition changed oracle-relevant state.
	Nontrivial bool
}

// Fail records an oracle violation for this transition.
func (t *Tr) Fail(sig, format string, a ...any) {
	t.fails = append(t.fails, Failure{Sig: sig, Msg: fmt.Sprintf(format, a...)})
}

// Note attaches text to the transition.
func (t *Tr) Note(format string, a ...any) { t.notes = append(t.notes, fmt.Sprintf(format, a...)) }

func (t *Tr) envChoose(n int) int {
	i := len(t.pts)
	t.pts = append(t.pts, n)
	if i < len(t.env) {
		c := t.env[i]
		if c >= n {
			panic(fmt.Sprintf("mc: env replay out of range: %d >= %d", c, n))
		}
		return c
	}
	return 0
}

// Model is a sequential system explored breadth-first over its real objects.
type Model struct {
	Name   string
	Params string
	// New builds a fresh instance. It may draw environment choices (Tr) too.
	New func(t *Tr) any
	// Ops lists the operations applicable in state s (labels); the alphabet may depend on s.
	Ops func(s any) []string
	// Apply performs operation k on s and checks the oracle (t.Fail).
	Apply func(s any, k int, t *Tr)
	// FP fingerprints s (default: reflective walk).
	FP func(s any) string
	// Inv is checked in every state reached (after New and after each Apply); optional.
	Inv func(s any, t *Tr)
	// Probe runs once per newly discovered state; fresh() rebuilds an independent instance in that
	// state (by replay), so the probe may run destructive experiments (N-step runs, twin runs).
	Probe func(fresh func() any, t *Tr)
}

// Step of a path: operation index plus the environment answers it consumed.
type Step struct {
	Op  int    `json:"op"`
	Env []int  `json:"env,omitempty"`
	Lbl string `json:"label,omitempty"`
}

// BFSOptions bound the search.
type BFSOptions struct {
	MaxDepth  int
	DevBound  int // environment deviations per transition (-1 unbounded)
	MaxStates int
	Deadline  time.Time
	NoPrune   bool
}

// BFSStats is the coverage of one BFS.
type BFSStats struct {
	Model       string         `json:"model"`
	Params      string         `json:"params,omitempty"`
	States      int            `json:"states"`
	Transitions int64          `json:"transitions"`
	Nontrivial  int64          `json:"nontrivial_transitions"`
	Depth       int            `json:"depth_completed"`
	MaxDepth    int            `json:"max_depth"`
	Fixpoint    bool           `json:"fixpoint"`
	Exhaustive  bool           `json:"exhaustive_within_bounds"`
	SigCounts   map[string]int `json:"violation_signatures,omitempty"`
	Violations  []*Violation   `json:"-"`
	Samples     [][]Step       `json:"-"`
	WallS       float64        `json:"wall_s"`
	Frontier    []int          `json:"frontier_sizes,omitempty"`
	Probes      int64          `json:"state_probes"`
}

type key [2]uint64

func hkey(s string) key {
	h := fnv.New64a()
	h.Write([]byte(s))
	a := h.Sum64()
	h2 := fnv.New64()
	h2.Write([]byte(s))
	h2.Write([]byte{0x5a})
	return key{a, h2.Sum64()}
}

func (m *Model) fp(s any) string {
	if m.FP != nil {
		return m.FP(s)
	}
	return Fingerprint(s)
}

// build replays path on a fresh instance.
func (m *Model) build(path []Step) any {
	t := &Tr{}
	var s any
	withEnv(t, func() { s = m.New(t) })
	for _, st := range path {
		tt := &Tr{env: st.Env}
		withEnv(tt, func() { m.Apply(s, st.Op, tt) })
	}
	return s
}

func withEnv(t *Tr, f func()) {
	old := vrt.EnvHook
	vrt.EnvHook = t.envChoose
	defer func() { vrt.EnvHook = old }()
	f()
}

// BFS explores the model.
func BFS(m *Model, opt BFSOptions) *BFSStats {
	start := time.Now()
	st := &BFSStats{Model: m.Name, Params: m.Params, MaxDepth: opt.MaxDepth, SigCounts: map[string]int{}}
	seen := map[key]struct{}{}
	sigSeen := map[string]bool{}
	report := func(path []Step, t *Tr) {
		k := sigKey(t.fails)
		st.SigCounts[k]++
		if sigSeen[k] {
			return
		}
		sigSeen[k] = true
		// confirm by replay: same failures
		t2 := m.replayLast(path)
		if sigKey(t2.fails) != k {
			fmt.Printf("INTERNAL: Mode-S replay diverged in %s: %v vs %v\n", m.Name, t.fails, t2.fails)
			panic("nondeterminism in Mode-S model")
		}
		v := &Violation{Scenario: m.Name, Params: m.Params, Choices: EncodePath(path), Failures: t.fails, Notes: append(pathLabels(path), t.notes...)}
		st.Violations = append(st.Violations, v)
	}
	probe := func(path []Step) {
		if m.Probe == nil {
			return
		}
		t := &Tr{Depth: len(path)}
		withEnv(t, func() { m.Probe(func() any { return m.build(path) }, t) })
		st.Probes++
		if len(t.fails) == 0 {
			return
		}
		k := sigKey(t.fails)
		st.SigCounts[k]++
		if sigSeen[k] {
			return
		}
		sigSeen[k] = true
		t2 := &Tr{Depth: len(path)}
		withEnv(t2, func() { m.Probe(func() any { return m.build(path) }, t2) })
		if sigKey(t2.fails) != k {
			panic("nondeterminism in Mode-S probe of " + m.Name)
		}
		st.Violations = append(st.Violations, &Violation{Scenario: m.Name, Params: m.Params, Choices: EncodePath(path), Failures: t.fails,
			Notes: append(pathLabels(path), t.notes...)})
	}
	root := &Tr{}
	var s0 any
	withEnv(root, func() {
		s0 = m.New(root)
		if m.Inv != nil {
			m.Inv(s0, root)
		}
	})
	if len(root.fails) > 0 {
		report(nil, root)
	}
	seen[hkey(m.fp(s0))] = struct{}{}
	probe(nil)
	// The frontier is a parent-pointer tree (one small node per state); paths are materialised on use.
	frontier := []*pnode{nil}
	complete := true
	depth := 0
	for ; depth < opt.MaxDepth && len(frontier) > 0; depth++ {
		st.Frontier = append(st.Frontier, len(frontier))
		var next []*pnode
		for _, pn := range frontier {
			path := pn.path()
			if !opt.Deadline.IsZero() && time.Now().After(opt.Deadline) {
				complete = false
				break
			}
			if opt.MaxStates > 0 && len(seen) >= opt.MaxStates {
				complete = false
				break
			}
			s := m.build(path)
			ops := m.Ops(s)
			for k := range ops {
				envStack := [][]int{nil}
				for len(envStack) > 0 {
					env := envStack[len(envStack)-1]
					envStack = envStack[:len(envStack)-1]
					var cur any
					if k == 0 && env == nil {
						cur = s // first use of the instance built above
					} else {
						cur = m.build(path)
					}
					t := &Tr{env: env, Label: ops[k], Depth: len(path)}
					withEnv(t, func() {
						m.Apply(cur, k, t)
						if m.Inv != nil {
							m.Inv(cur, t)
						}
					})
					st.Transitions++
					if t.Nontrivial {
						st.Nontrivial++
					}
					chosen := make([]int, len(t.pts))
					copy(chosen, env)
					np := append(append([]Step{}, path...), Step{Op: k, Env: trimZeros(chosen), Lbl: ops[k]})
					if len(t.fails) > 0 {
						report(np, t)
					}
					if len(st.Samples) < 2 && len(np) >= 2 {
						st.Samples = append(st.Samples, np)
					}
					kk := hkey(m.fp(cur))
					if _, ok := seen[kk]; !ok || opt.NoPrune {
						seen[kk] = struct{}{}
						next = append(next, &pnode{parent: pn, step: np[len(np)-1]})
						probe(np)
					}
					// alternatives of the environment draws beyond the replayed prefix
					devs := 0
					for _, c := range env {
						if c != 0 {
							devs++
						}
					}
					if opt.DevBound < 0 || devs+1 <= opt.DevBound {
						for i := len(env); i < len(t.pts); i++ {
							for alt := 1; alt < t.pts[i]; alt++ {
								ne := make([]int, i+1)
								copy(ne, chosen[:i])
								ne[i] = alt
								envStack = append(envStack, ne)
							}
						}
					}
				}
			}
		}
		if !complete {
			break
		}
		frontier = next
	}
	st.Depth = depth
	st.States = len(seen)
	st.Fixpoint = complete && len(frontier) == 0
	st.Exhaustive = complete
	st.WallS = time.Since(start).Seconds()
	return st
}

// pnode is one frontier entry: the last step plus a pointer to the state it was reached from.
type pnode struct {
	parent *pnode
	step   Step
}

func (n *pnode) path() []Step {
	d := 0
	for x := n; x != nil; x = x.parent {
		d++
	}
	p := make([]Step, d)
	for x := n; x != nil; x = x.parent {
		d--
		p[d] = x.step
	}
	return p
}

func (m *Model) replayLast(path []Step) *Tr {
	if len(path) == 0 {
		t := &Tr{}
		withEnv(t, func() {
			s := m.New(t)
			if m.Inv != nil {
				m.Inv(s, t)
			}
		})
		return t
	}
	s := m.build(path[:len(path)-1])
	last := path[len(path)-1]
	t := &Tr{env: last.Env, Label: last.Lbl, Depth: len(path) - 1}
	withEnv(t, func() {
		m.Apply(s, last.Op, t)
		if m.Inv != nil {
			m.Inv(s, t)
		}
	})
	return t
}

// ReplayBFS re-executes an encoded path and returns the failures of its last transition.
func ReplayBFS(m *Model, enc []int) ([]Failure, []string) {
	path := DecodePath(enc)
	// labels
	s := m.build(nil)
	for i := range path {
		ops := m.Ops(s)
		if path[i].Op < len(ops) {
			path[i].Lbl = ops[path[i].Op]
		}
		tt := &Tr{env: path[i].Env}
		if i < len(path)-1 {
			withEnv(tt, func() { m.Apply(s, path[i].Op, tt) })
		}
	}
	t := m.replayLast(path)
	if m.Probe != nil {
		withEnv(t, func() { m.Probe(func() any { return m.build(path) }, t) })
	}
	return t.fails, append(pathLabels(path), t.notes...)
}

func trimZeros(a []int) []int {
	n := len(a)
	for n > 0 && a[n-1] == 0 {
		n--
	}
	if n == 0 {
		return nil
	}
	return a[:n]
}

// EncodePath flattens a path to integers: op, len(env), env...
func EncodePath(p []Step) []int {
	var out []int
	for _, s := range p {
		out = append(out, s.Op, len(s.Env))
		out = append(out, s.Env...)
	}
	return out
}

// DecodePath is the inverse of EncodePath.
func DecodePath(e []int) []Step {
	var p []Step
	for i := 0; i+1 < len(e); {
		op, n := e[i], e[i+1]
		i += 2
		st := Step{Op: op}
		if n > 0 {
			st.Env = append([]int{}, e[i:i+n]...)
		}
		i += n
		p = append(p, st)
	}
	return p
}

func pathLabels(p []Step) []string {
	var out []string
	for i, s := range p {
		l := fmt.Sprintf("%d: %s", i, s.Lbl)
		if len(s.Env) > 0 {
			l += fmt.Sprintf(" env=%v", s.Env)
		}
		out = append(out, l)
	}
	return []string{"path: " + strings.Join(out, " ; ")}
}

// ReplayView is the JSON view printed by a Mode-T replay.
func ReplayView(x *Exec, r *vrt.Result) map[string]any {
	return map[string]any{"failures": x.fails, "observations": x.obs, "notes": x.notes, "stuck": r.StuckInfo,
		"panic": r.Panic, "steps": r.Steps, "end_clock": r.EndClock}
}
