package mc

import (
	"fmt"
	"math"
	"os"
	"reflect"
	"sort"
	"strconv"
	"strings"

	"verif/vrt"
)

// Fingerprint is a canonical rendering of every data field reachable from v: numbers (floats by
// bit pattern), bools, strings, pointers and interfaces followed, slices and maps element-wise (maps
// by sorted key), funcs by nil-ness only. Types that belong to the virtual runtime (lock shims)
// are skipped. Unexported fields are read through reflect (allowed for these kinds).
func Fingerprint(v any) string {
	var b strings.Builder
	w := &fpWalker{b: &b, seen: map[uintptr]int{}}
	w.walk(reflect.ValueOf(v), 0)
	return b.String()
}

type fpWalker struct {
	b    *strings.Builder
	seen map[uintptr]int
}

// Skipper marks harness doubles (recording registries, listeners) whose contents are write-only from
// the code's point of view and must not be part of a state fingerprint.
type Skipper interface{ FingerprintSkip() }

var skipperType = reflect.TypeOf((*Skipper)(nil)).Elem()

func skipType(t reflect.Type) bool {
	p := t.PkgPath()
	if strings.HasPrefix(p, "verif/vrt") {
		return true
	}
	return t.Implements(skipperType) || (t.Kind() != reflect.Ptr && reflect.PtrTo(t).Implements(skipperType))
}

func (w *fpWalker) walk(v reflect.Value, depth int) {
	if !v.IsValid() {
		w.b.WriteString("nil")
		return
	}
	if depth > 64 {
		w.b.WriteString("…")
		return
	}
	t := v.Type()
	if skipType(t) {
		return
	}
	switch v.Kind() {
	case reflect.Bool:
		if v.Bool() {
			w.b.WriteByte('T')
		} else {
			w.b.WriteByte('F')
		}
	case reflect.Int, reflect.Int8, reflect.Int16, reflect.Int32, reflect.Int64:
		w.b.WriteString(strconv.FormatInt(v.Int(), 10))
	case reflect.Uint, reflect.Uint8, reflect.Uint16, reflect.Uint32, reflect.Uint64, reflect.Uintptr:
		w.b.WriteString(strconv.FormatUint(v.Uint(), 10))
	case reflect.Float32, reflect.Float64:
		w.b.WriteString("f")
		w.b.WriteString(strconv.FormatUint(math.Float64bits(v.Float()), 16))
	case reflect.String:
		w.b.WriteString(strconv.Quote(v.String()))
	case reflect.Ptr:
		if v.IsNil() {
			w.b.WriteString("nil")
			return
		}
		p := v.Pointer()
		if id, ok := w.seen[p]; ok {
			fmt.Fprintf(w.b, "^%d", id)
			return
		}
		w.seen[p] = len(w.seen)
		w.b.WriteByte('&')
		w.walk(v.Elem(), depth+1)
	case reflect.Interface:
		if v.IsNil() {
			w.b.WriteString("nil")
			return
		}
		e := v.Elem()
		w.b.WriteString(e.Type().String())
		w.b.WriteByte(':')
		w.walk(e, depth+1)
	case reflect.Struct:
		w.b.WriteByte('{')
		for i := 0; i < v.NumField(); i++ {
			f := t.Field(i)
			if skipType(f.Type) {
				continue
			}
			if f.Type.Kind() == reflect.Ptr && skipType(f.Type.Elem()) {
				continue
			}
			if f.Tag.Get("fp") == "-" {
				continue
			}
			w.b.WriteString(f.Name)
			w.b.WriteByte('=')
			w.walk(v.Field(i), depth+1)
			w.b.WriteByte(',')
		}
		w.b.WriteByte('}')
	case reflect.Slice:
		if v.IsNil() {
			w.b.WriteString("[]")
			return
		}
		if v.Type().Elem().Kind() == reflect.Func {
			fmt.Fprintf(w.b, "[func×%d]", v.Len())
			return
		}
		w.b.WriteByte('[')
		for i := 0; i < v.Len(); i++ {
			w.walk(v.Index(i), depth+1)
			w.b.WriteByte(',')
		}
		w.b.WriteByte(']')
	case reflect.Array:
		w.b.WriteByte('[')
		for i := 0; i < v.Len(); i++ {
			w.walk(v.Index(i), depth+1)
			w.b.WriteByte(',')
		}
		w.b.WriteByte(']')
	case reflect.Map:
		if v.IsNil() {
			w.b.WriteString("map[]")
			return
		}
		type kv struct {
			k string
			v reflect.Value
		}
		var all []kv
		it := v.MapRange()
		for it.Next() {
			var kb strings.Builder
			kw := &fpWalker{b: &kb, seen: w.seen}
			kw.walk(it.Key(), depth+1)
			all = append(all, kv{kb.String(), it.Value()})
		}
		sort.Slice(all, func(i, j int) bool { return all[i].k < all[j].k })
		w.b.WriteString("map[")
		for _, e := range all {
			w.b.WriteString(e.k)
			w.b.WriteByte(':')
			w.walk(e.v, depth+1)
			w.b.WriteByte(',')
		}
		w.b.WriteByte(']')
	case reflect.Func:
		if v.IsNil() {
			w.b.WriteString("func(nil)")
		} else {
			w.b.WriteString("func")
		}
	case reflect.Chan, reflect.UnsafePointer:
		w.b.WriteString("?")
	default:
		w.b.WriteString("?")
	}
}

// Safe runs f and returns the panic message (with "" for none).
func Safe(f func()) (msg string) {
	defer func() {
		if r := recover(); r != nil {
			if ce, ok := r.(vrt.CapacityError); ok {
				fmt.Fprintf(os.Stderr, "INTERNAL: %s (a limit of the model, not a violation)\n", string(ce))
				os.Exit(3)
			}
			msg = fmt.Sprint(r)
		}
	}()
	f()
	return ""
}

// Field reads a (possibly unexported) field of a struct or pointer-to-struct by name; ok is false
// when it does not exist (refactored code).
func Field(obj any, name string) (reflect.Value, bool) {
	v := reflect.ValueOf(obj)
	for v.IsValid() && (v.Kind() == reflect.Ptr || v.Kind() == reflect.Interface) {
		if v.IsNil() {
			return reflect.Value{}, false
		}
		v = v.Elem()
	}
	if !v.IsValid() || v.Kind() != reflect.Struct {
		return reflect.Value{}, false
	}
	f := v.FieldByName(name)
	if !f.IsValid() {
		return reflect.Value{}, false
	}
	return f, true
}

// FieldInt reads an integer field, following one pointer level.
func FieldInt(obj any, name string) (int64, bool) {
	f, ok := Field(obj, name)
	if !ok {
		return 0, false
	}
	for f.Kind() == reflect.Ptr {
		if f.IsNil() {
			return 0, false
		}
		f = f.Elem()
	}
	switch f.Kind() {
	case reflect.Int, reflect.Int8, reflect.Int16, reflect.Int32, reflect.Int64:
		return f.Int(), true
	case reflect.Uint, reflect.Uint8, reflect.Uint16, reflect.Uint32, reflect.Uint64:
		return int64(f.Uint()), true
	}
	return 0, false
}

// FieldFloat reads a float field.
func FieldFloat(obj any, name string) (float64, bool) {
	f, ok := Field(obj, name)
	if !ok {
		return 0, false
	}
	if f.Kind() == reflect.Float64 || f.Kind() == reflect.Float32 {
		return f.Float(), true
	}
	return 0, false
}
