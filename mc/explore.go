// Package mc is the explorer: stateless depth-first enumeration of every execution of a closed
// scenario, identified by its list of choices, within a preemption bound and a deviation bound
// (Mode T), plus an explicit-state breadth-first search with fingerprint pruning over the real
// objects (Mode S, see bfs.go).
package mc

import (
	"encoding/json"
	"fmt"
	"hash/fnv"
	"os"
	"sort"
	"strings"
	"time"

	"verif/vrt"
)

// Point records one choice point met during an execution.
type Point struct {
	Kind       vrt.Kind
	N          int
	Preemptive bool
	Chosen     int
	Key        uint64 // happens-before state key at this point
}

// Exec is the per-execution context handed to the scenario body.
type Exec struct {
	prefix   []int
	points   []Point
	diverged string
	obs      []string
	fails    []Failure
	Sched    *vrt.Sched
	notes    []string
	conflict bool
	visit    func(key uint64) bool // false = state dominated (prune)
	pruned   bool
	// Aux carries scenario-private ghost state from Body to the hooks.
	Aux any
	// OracleSkipped counts oracle reads that could not be made (lock held at quiescence).
	OracleSkipped int
}

// FailOnce records a violation unless the same signature was already recorded in this execution.
func (x *Exec) FailOnce(sig, format string, a ...any) {
	for _, f := range x.fails {
		if f.Sig == sig {
			return
		}
	}
	x.Fail(sig, format, a...)
}

// Failure is one oracle violation in one execution.
type Failure struct {
	Sig string `json:"sig"` // stable signature used for known-finding matching
	Msg string `json:"msg"`
}

// Choose implements vrt.Chooser. It runs on whichever goroutine holds the baton, hence norace and
// (in race mode) a preallocated point list.
//
//go:norace
func (x *Exec) Choose(kind vrt.Kind, n int, preemptive bool) int {
	i := len(x.points)
	c := 0
	if i < len(x.prefix) {
		c = x.prefix[i]
		if c >= n || c < 0 {
			if x.diverged == "" {
				x.diverged = fmt.Sprintf("choice %d: prefix wants %d but arity is %d (%s)", i, c, n, kind)
			}
			c = 0
		}
	}
	var key uint64
	if vrt.S != nil {
		key = vrt.S.CurKey()
	}
	if x.visit != nil && i >= len(x.prefix) && n > 1 && !x.visit(key) {
		// state already expanded with no more cost used: the rest of this execution is covered
		x.pruned = true
		vrt.S.Abandon()
		return 0
	}
	x.points = append(x.points, Point{Kind: kind, N: n, Preemptive: preemptive, Chosen: c, Key: key})
	return c
}

// Observe appends to the outcome record of this execution (used to count distinct outcomes).
func (x *Exec) Observe(format string, a ...any) {
	x.obs = append(x.obs, fmt.Sprintf(format, a...))
}

// Fail records an oracle violation.
func (x *Exec) Fail(sig, format string, a ...any) {
	x.fails = append(x.fails, Failure{Sig: sig, Msg: fmt.Sprintf(format, a...)})
}

// Failed reports whether any violation was recorded so far.
func (x *Exec) Failed() bool { return len(x.fails) > 0 }

// Note attaches free text to the execution (shown in replays).
func (x *Exec) Note(format string, a ...any) { x.notes = append(x.notes, fmt.Sprintf(format, a...)) }

// MarkConflict marks the execution as non-trivial (threads actually contended / state changed).
func (x *Exec) MarkConflict() { x.conflict = true }

// Scenario is a closed system: Body runs as thread 0 under the virtual runtime.
type Scenario struct {
	Name   string
	Params string // human-readable parameters (also part of the replay file)
	Cfg    vrt.Config
	Body   func(x *Exec)
	// Post runs after the execution ended (outside the scheduler) with the runtime result; it may
	// record failures (e.g. on Stuck) and observations.
	Post func(x *Exec, r *vrt.Result)
	// OnQuiescent runs in controller context at every quiescent state.
	OnQuiescent func(x *Exec, s *vrt.Sched)
	// MonitorOnce marks scenarios whose oracle is an external monitor that reports each finding
	// only once per process (the race detector): the confirmation replays then only have to
	// reproduce the observations, not the failures.
	MonitorOnce bool
}

// Options bound one exploration.
type Options struct {
	PreemptBound  int // max preemptions per execution (-1 = unbounded)
	DevBound      int // max environment deviations per execution (-1 = unbounded)
	MaxExec       int64
	Deadline      time.Time
	Shard, NShard int
	StopAtFirst   bool // stop exploring a scenario after the first violating execution per signature set
	NoCache       bool // disable happens-before state caching
}

// Violation is a violating execution, replayable from Choices.
type Violation struct {
	Property string     `json:"property"`
	Scenario string     `json:"scenario"`
	Params   string     `json:"params"`
	Choices  []int      `json:"choices"`
	Failures []Failure  `json:"failures"`
	Trace    []vrt.Step `json:"trace,omitempty"`
	Obs      []string   `json:"observations,omitempty"`
	Notes    []string   `json:"notes,omitempty"`
	Stuck    []string   `json:"stuck,omitempty"`
	Panic    string     `json:"panic,omitempty"`
}

// Stats of one exploration.
type Stats struct {
	Scenario      string         `json:"scenario"`
	Params        string         `json:"params,omitempty"`
	Executions    int64          `json:"executions"`
	Steps         int64          `json:"steps"`
	Outcomes      int            `json:"distinct_outcomes"`
	Nontrivial    int64          `json:"nontrivial_executions"`
	MaxPoints     int            `json:"max_choice_points"`
	Capped        int64          `json:"capped_executions"`
	Stuck         int64          `json:"stuck_executions"`
	Exhaustive    bool           `json:"exhaustive_within_bounds"`
	PreemptBound  int            `json:"preemption_bound"`
	DevBound      int            `json:"deviation_bound"`
	Violations    []*Violation   `json:"-"`
	SigCounts     map[string]int `json:"violation_signatures,omitempty"`
	Sample        *Violation     `json:"-"` // one passing execution written out
	WallS         float64        `json:"wall_s"`
	outcomes      map[uint64]struct{}
	NontrivOut    int   `json:"distinct_nontrivial_outcomes"`
	Abandoned     int64 `json:"executions_cut_at_covered_state"`
	CacheStates   int   `json:"hb_states"`
	CachePrunes   int64 `json:"hb_prunes"`
	OracleSkipped int64 `json:"oracle_skipped"`
	ntOutcomes    map[uint64]struct{}
}

type frame struct {
	prefix []int
	pre    int // preemptions used by prefix
	dev    int // deviations used by prefix
	level  int // depth in the exploration tree (root execution = 0)
}

// shardLevel is the tree depth at which subtrees are dealt out to shards: executions above it
// (the root and its children — a few hundred) are run by every shard and counted by shard 0, the
// subtrees below them are explored by exactly one shard. One level is not enough: with a small
// preemption bound almost all work sits under the few cost-free alternatives of the root.
const shardLevel = 3

func hashStrs(ss []string) uint64 {
	h := fnv.New64a()
	for _, s := range ss {
		h.Write([]byte(s))
		h.Write([]byte{0})
	}
	return h.Sum64()
}

// RunOnce executes the scenario once with the given prefix (default choice 0 afterwards).
func RunOnce(sc *Scenario, prefix []int, trace bool) (*Exec, *vrt.Result) {
	return runOnce(sc, prefix, trace, nil)
}

var capacityNoted = map[string]bool{}

func runOnce(sc *Scenario, prefix []int, trace bool, visit func(uint64) bool) (*Exec, *vrt.Result) {
	x := &Exec{prefix: prefix, visit: visit}
	if vrt.RaceMode {
		x.points = make([]Point, 0, 1<<14)
	}
	cfg := sc.Cfg
	cfg.Trace = trace
	if sc.OnQuiescent != nil {
		cfg.OnQuiescent = func(s *vrt.Sched) { sc.OnQuiescent(x, s) }
	}
	r := vrt.Run(x, cfg, func() {
		x.Sched = vrt.S
		sc.Body(x)
	})
	if r.Internal != "" {
		// a fixed capacity of the model (threads, timers, waiters per condition or channel) was exceeded:
		// typically runaway behaviour of the tree under test. The execution is not judged and the
		// scenario is reported as not exhaustive; it is neither a violation nor a reason to stop.
		if !capacityNoted[sc.Name] {
			capacityNoted[sc.Name] = true
			fmt.Fprintf(os.Stderr, "NOTE: %s in scenario %s %s (prefix %v): a limit of the model, not a violation; the execution is not judged\n", r.Internal, sc.Name, sc.Params, prefix)
		}
		r.Capped = true
		return x, r
	}
	if r.Panic != "" {
		x.Fail("panic", "panic in thread: %s", r.Panic)
	}
	if sc.Post != nil && !r.Abandoned {
		sc.Post(x, r)
	}
	return x, r
}

// Explore enumerates every execution of sc within the bounds of opt.
func Explore(sc *Scenario, opt Options) *Stats {
	start := time.Now()
	st := &Stats{Scenario: sc.Name, Params: sc.Params, Exhaustive: true, PreemptBound: opt.PreemptBound,
		DevBound: opt.DevBound, SigCounts: map[string]int{}, outcomes: map[uint64]struct{}{}, ntOutcomes: map[uint64]struct{}{}}
	stack := []frame{{}}
	first := true
	sigSeen := map[string]bool{}
	// visited: state key -> cheapest cost (preemptions<<8 | deviations) with which it was expanded.
	// One pair per state keeps memory flat; an incomparable pair is simply not used for pruning.
	visited := map[uint64]uint16{}
	const maxVisited = 12_000_000 // beyond this no new states are remembered (less pruning, same coverage)
	for len(stack) > 0 {
		f := stack[len(stack)-1]
		stack = stack[:len(stack)-1]
		if opt.MaxExec > 0 && st.Executions >= opt.MaxExec {
			st.Exhaustive = false
			break
		}
		if !opt.Deadline.IsZero() && st.Executions%64 == 0 && time.Now().After(opt.Deadline) {
			st.Exhaustive = false
			break
		}
		var visit func(uint64) bool
		if !opt.NoCache {
			fpre, fdev := f.pre, f.dev
			visit = func(k uint64) bool {
				if c, ok := visited[k]; ok {
					cp, cd := int(c>>8), int(c&0xff)
					if cp <= fpre && cd <= fdev {
						st.CachePrunes++
						return false
					}
					if fpre <= cp && fdev <= cd {
						visited[k] = uint16(fpre<<8 | fdev)
					}
					return true
				}
				if len(visited) < maxVisited {
					visited[k] = uint16(fpre<<8 | fdev)
				}
				return true
			}
		}
		x, r := runOnce(sc, f.prefix, false, visit)
		if x.diverged != "" {
			panic(fmt.Sprintf("mc: nondeterminism not captured in scenario %s: %s (prefix %v)", sc.Name, x.diverged, f.prefix))
		}
		st.Executions++
		st.Steps += int64(r.Steps)
		if len(x.points) > st.MaxPoints {
			st.MaxPoints = len(x.points)
		}
		if r.Capped {
			st.Capped++
			st.Exhaustive = false
		}
		if r.Stuck {
			st.Stuck++
		}
		st.OracleSkipped += int64(x.OracleSkipped)
		if !r.Abandoned {
			oh := hashStrs(x.obs)
			if _, seen := st.outcomes[oh]; !seen && dumpObs != nil {
				fmt.Fprintf(dumpObs, "%s\n", strings.Join(x.obs, " ;; "))
			}
			st.outcomes[oh] = struct{}{}
			if x.conflict {
				st.Nontrivial++
				st.ntOutcomes[oh] = struct{}{}
			}
		} else {
			st.Abandoned++
		}
		if first && !r.Abandoned {
			first = false
			st.Sample = &Violation{Scenario: sc.Name, Params: sc.Params, Choices: choices(x), Obs: x.obs}
		}
		if len(x.fails) > 0 {
			xf, rf := x, r
			if r.Abandoned {
				// the execution was cut at a covered state after its oracle had already failed: complete
				// it (default choices beyond the cut) so that the report, its signature and its replay
				// describe a whole execution
				xf, rf = runOnce(sc, choices(x), false, nil)
			}
			key := sigKey(xf.fails)
			st.SigCounts[key]++
			if !sigSeen[key] {
				sigSeen[key] = true
				v := confirm(sc, xf, rf)
				st.Violations = append(st.Violations, v)
			}
		}
		// children
		pre, dev := f.pre, f.dev
		// accumulate the cost along the executed path beyond the prefix: defaults cost nothing
		for i := len(f.prefix); i < len(x.points); i++ {
			p := x.points[i]
			if p.N <= 1 {
				continue
			}
			var cpre, cdev int
			switch p.Kind {
			case vrt.KThread:
				if p.Preemptive {
					cpre = 1
				}
			case vrt.KTimer:
				// an early expiry costs a preemption; co-firing wake-ups due at the same instant is free
				if p.Preemptive {
					cpre = 1
				}
			case vrt.KEnv:
				cdev = 1
			}
			if opt.PreemptBound >= 0 && pre+cpre > opt.PreemptBound {
				continue
			}
			if opt.DevBound >= 0 && dev+cdev > opt.DevBound {
				continue
			}
			for alt := p.N - 1; alt >= 1; alt-- {
				np := make([]int, i+1)
				for j := 0; j < i; j++ {
					np[j] = x.points[j].Chosen
				}
				np[i] = alt
				if opt.NShard > 1 && f.level == shardLevel-1 {
					if shardOf(np)%opt.NShard != opt.Shard {
						continue
					}
				}
				stack = append(stack, frame{prefix: np, pre: pre + cpre, dev: dev + cdev, level: f.level + 1})
			}
		}
		if opt.NShard > 1 && f.level < shardLevel && opt.Shard != 0 {
			// executions above the sharding level are counted by shard 0 only
			st.Executions--
			st.Steps -= int64(r.Steps)
		}
	}
	st.CacheStates = len(visited)
	st.Outcomes = len(st.outcomes)
	st.NontrivOut = len(st.ntOutcomes)
	st.WallS = time.Since(start).Seconds()
	return st
}

// dumpObs (debugging aid, VERIF_DUMP_OBS=<file>): every distinct outcome is appended to the file.
var dumpObs = func() *os.File {
	if p := os.Getenv("VERIF_DUMP_OBS"); p != "" {
		f, _ := os.OpenFile(p, os.O_CREATE|os.O_WRONLY|os.O_APPEND, 0o644)
		return f
	}
	return nil
}()

func shardOf(p []int) int {
	h := 0
	for i, v := range p {
		h = h*31 + v*(i+7)
	}
	if h < 0 {
		h = -h
	}
	return h
}

func choices(x *Exec) []int {
	out := make([]int, len(x.points))
	for i, p := range x.points {
		out[i] = p.Chosen
	}
	// trim trailing zeros (defaults)
	n := len(out)
	for n > 0 && out[n-1] == 0 {
		n--
	}
	return out[:n]
}

func sigKey(fs []Failure) string {
	set := map[string]bool{}
	for _, f := range fs {
		set[f.Sig] = true
	}
	var ks []string
	for k := range set {
		ks = append(ks, k)
	}
	sort.Strings(ks)
	return strings.Join(ks, "+")
}

// confirm replays a violating execution twice (with trace) and requires identical observations and
// failures; otherwise the nondeterminism was not captured and the run aborts.
func confirm(sc *Scenario, x *Exec, r *vrt.Result) *Violation {
	ch := choices(x)
	var last *Exec
	var lr *vrt.Result
	for k := 0; k < 2; k++ {
		y, yr := RunOnce(sc, ch, true)
		if y.diverged != "" || (!sc.MonitorOnce && sigKey(y.fails) != sigKey(x.fails)) || strings.Join(y.obs, "|") != strings.Join(x.obs, "|") {
			fmt.Fprintf(os.Stderr, "INTERNAL: replay of a violating execution diverged in %s: %s\n  first: %v %v\n  replay: %v %v\n",
				sc.Name, y.diverged, x.fails, x.obs, y.fails, y.obs)
			os.Exit(3)
		}
		last, lr = y, yr
	}
	if sc.MonitorOnce {
		last.fails = x.fails
	}
	return &Violation{Scenario: sc.Name, Params: sc.Params, Choices: ch, Failures: last.fails, Trace: lr.Trace,
		Obs: last.obs, Notes: last.notes, Stuck: lr.StuckInfo, Panic: lr.Panic}
}

// WriteJSON writes v as indented JSON.
func WriteJSON(path string, v any) error {
	b, err := json.MarshalIndent(v, "", " ")
	if err != nil {
		return err
	}
	return os.WriteFile(path, b, 0o644)
}
