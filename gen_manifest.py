#!/usr/bin/env python3
"""Generates MANIFEST.json from the table below (kept as a script so the file stays consistent)."""
import json
CLAIMED = {
 "C01": dict(technique="stateless model checking of the real code under a controlled scheduler (preemption-bounded DFS) + porcupine linearizability oracle per execution",
             text="Every interleaving (within the preemption bound) of Acquire/completions/window-closing limit updates on the real DefaultLimiter+Simple/Precise strategies and on PreciseStrategy directly is executed; each execution's call/return history must be linearizable against an atomic counting gate and the end-state counters must be exact.",
             ref="DESIGN 7 C01", note="vrt shims model sync/atomic/time faithfully; scenarios of 2-4 threads, limits 1-3; bounds in evidence"),
}
ALL = ["C%02d" % i for i in range(1, 21)]
checks = []
for pid in ALL:
    if pid not in CLAIMED: continue
    c = CLAIMED[pid]
    checks.append({
        "property_id": pid,
        "quick_cmd": "./bin/vcheck %s --tier quick" % pid,
        "thorough_cmd": "./bin/vcheck %s --tier thorough" % pid,
        "evidence_file": "evidence/%s.json" % pid,
        "replay_cmd_template": "./bin/vcheck replay {path}",
        "engine": "vrt+mc",
        "level_claimed": {"category": "model_checking", "text": c["text"], "design_ref": c["ref"]},
        "level_note": c["note"],
        "technique": c["technique"],
    })
na = [{"property_id": p, "reason": "check not built yet (work in progress; planned per DESIGN 7)"} for p in ALL if p not in CLAIMED]
m = {
 "version": 1,
 "setup_cmd": "./setup.sh",
 "hooks": {
   "guard": "verif",
   "enable": "no hooks are committed to /repo: cmd/vcheck runs the syntactic rewriter (rewrite/) over /repo's working tree and builds the harness with `go build -overlay`, which redirects sync, sync/atomic, time, context, math/rand, channels, select and go statements to the virtual runtime (vrt/)",
   "baseline_off_cmd": "cd /repo && GOFLAGS=-mod=mod GOPROXY=off GOSUMDB=off GOTOOLCHAIN=local go test -vet=off -count=1 ./...",
   "source_commits": [],
   "add_only": True,
 },
 "engines": [
   {"name": "vrt+mc", "path": "vrt/ mc/ rewrite/ harness/ cmd/vcheck", "serves_properties": [c["property_id"] for c in checks],
    "kind_free_text": "hand-written stateless model checker: cooperative scheduler + shims (vrt), preemption/deviation-bounded DFS over choice lists and explicit-state BFS with fingerprints over the real objects (mc)"},
 ],
 "checks": checks,
 "not_applicable": na,
 "notes": "See DESIGN.md. Exit codes: 0 held, 1 VIOLATION, 2 INCONCLUSIVE (edited tree does not build through the overlay), 3 internal error.",
}
json.dump(m, open("/verif/MANIFEST.json", "w"), indent=1)
print("claimed:", len(checks), "not applicable:", len(na))
