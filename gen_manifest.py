#!/usr/bin/env python3
"""Generates MANIFEST.json from the table below (kept as a script so the file stays consistent)."""
import json
T_T = "stateless model checking of the real code under a controlled scheduler: preemption-bounded DFS over every lock/atomic/channel/cond/timer operation with happens-before state caching"
T_S = "explicit-state BFS over operation sequences on the real objects with fingerprint pruning, every transition checked against a reference model"
CLAIMED = {
 "C01": dict(technique=T_T + "; porcupine linearizability oracle per execution",
   text="Every interleaving (within the preemption bound) of Acquire/completions/window-closing limit updates on the real DefaultLimiter+Simple/Precise strategies and on PreciseStrategy directly is executed; each execution's call/return history must be linearizable against an atomic counting gate and the end-state counters must be exact.",
   ref="DESIGN 7 C01", note="scenarios of 2-4 threads, limits 1-3; preemption bound 2 (quick) / 3 (thorough)"),
 "C02": dict(technique=T_T + "; eager virtual clock for give-up vs hand-off",
   text="All interleavings of a releasing holder, 2-3 callers, a canceller and (queue family) timeouts that may fire at any point, over every limiter stack; oracle: listener iff ok, and at the end every counter and partition bin is zero and exactly the full limit is admitted again through the whole stack (wrappers over simple/precise and over partitioned strategies; deadline and poll-timeout expiries racing releases on the eager clock).",
   ref="DESIGN 7 C02", note="limit 1-2, preemption bound 1-2 (quick) / 2-3 (thorough); private gauge read by guarded reflection"),
 "C03": dict(technique=T_S + " (to a fixpoint per configuration) + " + T_T + " with a brute-force linearizability oracle",
   text="BFS to a fixpoint over acquire/release/SetLimit/AddPartition/RemovePartition sequences on both partitioned strategies for a grid of fraction sets and limits, compared step by step with a reference partition model; concurrent mixes (acquire/release/SetLimit and AddPartition/RemovePartition racing them) checked for linearizability and exact bins.",
   ref="DESIGN 7 C03", note="fractions/limits from a finite grid; limits up to 5"),
 "C04": dict(technique=T_S + "; environment draws enumerated",
   text="BFS over sample sequences (rtt 0..2^62, in-flight 0..2^31-1, drops, drop-only windows, RTT-sum overflow) x random draws x configuration grid (full and NewDefault constructors, debug logger, caller-supplied Vegas functions) for AIMD/Vegas/Gradient/Gradient2 alone and inside the windowed/traced wrappers; oracle: no panic, finite, within [floor, ceiling].",
   ref="DESIGN 7 C04", note="abstract sample alphabet; depth 5-6 (quick) / 7-8 (thorough)"),
 "C05": dict(technique="exhaustive deviation-bounded history enumeration on the real DefaultLimiter + " + T_T,
   text="Every 26-completion history with <= DB deviations x estimate trajectories (0, negative, repeated, 2^30) x strategy kinds: after construction and after every update the strategy limit, partition shares and gauges equal the estimate floored at 1; concurrent window closers explored under the scheduler.",
   ref="DESIGN 7 C05", note="DB 2 (quick) / 3 (thorough); scripted limit stands for any algorithm"),
 "C06": dict(technique=T_S + " with per-state probes (N-drop runs)",
   text="Every reachable state (depth-bounded) of AIMD/Vegas/Gradient, alone and behind the windowed wrapper: a drop never raises the estimate (AIMD: exact rule) and a sustained run of drops (any RTT incl. 0, or drop-only windows) reaches the floor within a configuration-derived N.",
   ref="DESIGN 7 C06", note="Vegas probe multiplier >= 4 (see DESIGN false-alarm register)"),
 "C07": dict(technique=T_S + " with per-state probes (healthy runs)",
   text="Every reachable state of the four algorithms (histories with drops and zero RTTs): app-limited samples never raise the estimate; a saturated drop-free run recovers to within one of the ceiling within N samples.",
   ref="DESIGN 7 C07", note="N computed from the configuration with a wide margin"),
 "C08": dict(technique=T_S + " with relational twin-run probes",
   text="At every reachable state of Vegas/Gradient/Gradient2 the state is rebuilt per RTT and the same final sample with a higher RTT must not yield a higher estimate (all pairs from a 6-8 value RTT menu, 4 in-flight values, both drop flags).",
   ref="DESIGN 7 C08", note="configurations with initial <= max"),
 "C09": dict(technique="exhaustive deviation-bounded history enumeration on the real DefaultLimiter/WindowedLimit against a reference window fold + " + T_T + " for completions racing the closing of a window",
   text="Every 26-completion history with <= DB deviations (drop, ignore, sub-threshold, long, overlapping, gap) on a manual virtual clock: the delegate's received OnSample sequence (position and arguments) equals the reference fold; two completions racing a window close must yield the fold of one of their two orders.",
   ref="DESIGN 7 C09", note="windowSize 10; DB 2 for 8 configurations + DB 3 for one each (quick), DB 3 (thorough)"),
 "C10": dict(technique=T_T + "; lazy virtual clock, oracle at every quiescent state",
   text="All interleavings of a releasing holder with 1-3 callers going to sleep, for blocking/deadline/queue limiters and all outcomes (also releases that arrive one poll period late, or on the very instant of the waiter's poll timeout): at every quiescent state no caller is parked while capacity is free; violations carry a signature computed from public-seam events.",
   ref="DESIGN 7 C10", note="lazy clock: a timeout-driven retry shows as a quiescent state with a parked caller"),
 "C11": dict(technique=T_T + " (preemption bound 0: exhaustive event sequences of a quiescence-stepped driver) + racing releases",
   text="Every sequence of arrivals/releases/timeouts/cancellations up to a depth, for every constructor (config, defaults, deprecated FIFO/LIFO wrappers, pools): each grant goes to the waiter a reference FIFO/LIFO queue predicts.",
   ref="DESIGN 7 C11", note="up to 4-5 waiters, depth 5-6"),
 "C12": dict(technique=T_T + " (driver sequences + racing arrivals / give-ups on the eager clock)",
   text="Driver sequences with backlog 1-2: full backlog refuses at once, queue_size equals blocked callers after every event; concurrent arrivals racing for the last slot and give-ups racing hand-offs: at every quiescent state gauge = parked callers <= max.",
   ref="DESIGN 7 C12", note="preemption bound 2-3"),
 "C13": dict(technique=T_T + " over a grid of instants on the lazy virtual clock: wake-ups of one instant are concurrent (every tie order and every interleaving of the woken threads within the bound)",
   text="Grid of arrival/bound/cancel/release instants for deadline, blocking and queue limiters: the caller returns refused exactly at its bound, granted exactly at the release, pre-cancelled calls and arrivals at/after the deadline consume nothing; a second caller that follows the first while the capacity is still held is bounded the same way; plus driver sequences for queue timeouts/cancellation.",
   ref="DESIGN 7 C13", note="virtual clock: statements about the code's logic at exact instants"),
 "C14": dict(technique="complete enumeration of the finite closed space (plain build of the real interceptors with recording doubles)",
   text="Interceptor kind x limiter answer x call result x classifier x options, all sequences of <= 3-4 RecvMsg/SendMsg with distinct recv/send limiters, and RecvMsg/SendMsg in progress on one stream while another operation runs on it (nested at the inner-stream seam): right limiter consulted once before the call, token completed exactly once with the classifier's outcome, results unchanged, refusals touch nothing.",
   ref="DESIGN 7 C14", note="unmodified repo + real grpc module; no network"),
 "C15": dict(technique=T_S + "; random draws enumerated without bound",
   text="RTT step sequences x all jitter/countdown draws for Vegas and Gradient: after every sample the baseline is unset or <= the sample, equals the minimum since a reset point, and that reset point is recent.",
   ref="DESIGN 7 C15", note="depth 8 (quick) / 11 (thorough)"),
 "C16": dict(technique=T_S,
   text="Sample / SetLimit / NotifyOnChange sequences for every limit and wrapper: a changed estimate notified every registered listener, the last delivered value equals EstimatedLimit, wrappers report their delegate's estimate and traced forwards samples unchanged.",
   ref="DESIGN 7 C16", note="depth 5-7"),
 "C17": dict(technique=T_T + " in a -race build: ThreadSanitizer happens-before analysis as the per-execution monitor, scheduler hand-offs hidden from it",
   text="Every unordered pair of exported calls (incl. a call with itself) on a shared instance of every limit, strategy, partition, limiter, measurement and registry type — incl. started registries and whole limiter stacks reporting to one, with the poll tick firing at any point — runs as two threads; all interleavings within the preemption bound are enumerated and every execution is monitored by the race detector; calibration scenarios prove on every run that the monitor is neither blinded nor triggered by the scheduler.",
   ref="DESIGN 7 C17", note="pairs of calls (triples in the thorough tier); reports are deduplicated per process by the detector; vrt is //go:norace and adds no happens-before edge of its own"),
 "C18": dict(technique=T_S + " with twin probes after Reset + " + T_T + " for Add racing Update",
   text="Add/Get/Reset/Update sequences for every measurement type against reference folds; after every Reset the instance and a new one are driven with every continuation of length <= 3 and must agree; sample-window summaries checked for every permutation; Add racing Update(identity) and Get on Minimum/Single/ExponentialAverage must leave exactly what the same samples give sequentially (twin instance), and two racing Adds on every measurement type what they give in one of the two orders.",
   ref="DESIGN 7 C18", note="depth 6 (quick) / 8 (thorough)"),
 "C19": dict(technique=T_T + "; lazy virtual clock",
   text="N > limit callers on fixed and generic pools (all orderings): holders never exceed the limit, everybody is granted with no virtual time elapsing (with 300 ms hold times: the k-th grant exactly when the (k-limit)-th holder releases), also on a pool whose sampling window closes during one of the releases, and with exactly limit+backlog callers; nobody is parked while a slot is free.",
   ref="DESIGN 7 C19", note="limit 1-2, up to limit+2 callers"),
 "C20": dict(technique=T_S + " + " + T_T + " for the poller life cycle",
   text="Instrumented strategies/limits/queue limiter over a recording registry (samples and gauges equal the model after every step); bundled registries' backend contents and dogstatsd datagrams for every kind x prefix x id; all Start/Stop/Register/tick sequences (polled values must reach the backend), Stop racing a tick, and Start/Stop programs on two threads under the virtual ticker.",
   ref="DESIGN 7 C20", note="third-party go-metrics/dogstatsd run unmodified"),
}
ALL = ["C%02d" % i for i in range(1, 21)]
checks = []
for pid in ALL:
    if pid not in CLAIMED: continue
    c = CLAIMED[pid]
    checks.append({
        "property_id": pid,
        "quick_cmd": "./bin/vcheck %s --tier quick" % pid,
        "thorough_cmd": "./bin/vcheck %s --tier thorough" % pid,
        "evidence_file": "evidence/%s.json" % pid,
        "replay_cmd_template": "./bin/vcheck replay {path}",
        "engine": "vrt+mc",
        "level_claimed": {"category": "model_checking", "text": c["text"], "design_ref": c["ref"]},
        "level_note": c["note"],
        "technique": c["technique"],
    })
na = [{"property_id": p, "reason": "race-mode exploration (schedule enumeration with the race detector as monitor) is being built; until it produces no self-inflicted reports the property is not claimed"} for p in ALL if p not in CLAIMED]
m = {
 "version": 1,
 "setup_cmd": "./setup.sh",
 "hooks": {
   "guard": "verif",
   "enable": "no hooks are committed to /repo: cmd/vcheck runs the syntactic rewriter (rewrite/) over /repo's working tree and builds the harness with `go build -overlay`, which redirects sync, sync/atomic, time, context, math/rand, channels, select and go statements to the virtual runtime (vrt/)",
   "baseline_off_cmd": "cd /repo && GOFLAGS=-mod=mod GOPROXY=off GOSUMDB=off GOTOOLCHAIN=local go test -vet=off -count=1 ./...",
   "source_commits": [],
   "add_only": True,
 },
 "engines": [
   {"name": "vrt+mc", "path": "vrt/ mc/ rewrite/ harness/ cmd/vcheck", "serves_properties": [c["property_id"] for c in checks],
    "kind_free_text": "hand-written stateless model checker: cooperative scheduler + shims (vrt), preemption/deviation-bounded DFS over choice lists and explicit-state BFS with fingerprints over the real objects (mc)"},
 ],
 "checks": checks,
 "not_applicable": na,
 "notes": "See DESIGN.md. Exit codes: 0 held, 1 VIOLATION, 2 INCONCLUSIVE (edited tree does not build through the overlay), 3 internal error.",
}
json.dump(m, open("/verif/MANIFEST.json", "w"), indent=1)
print("claimed:", len(checks), "not applicable:", len(na))
