// Package rewrite is the source-to-source pass that re-targets repository code at the virtual
// runtime: imports of sync, sync/atomic, time, context and math/rand are redirected to the vrt
// shims, channel types/operations/select become vchan calls and go statements become vrt.Go.
// The pass is purely syntactic (go/ast) and knows nothing about particular files.
package rewrite

import (
	"bytes"
	"encoding/json"
	"fmt"
	"go/ast"
	"go/format"
	"go/parser"
	"go/token"
	"go/types"
	"os"
	"path/filepath"
	"sort"
	"strconv"
	"strings"
)

// Packages of the repository that are compiled through the overlay (relative directories).
var Packages = []string{
	"core", "limit", "limit/functions", "limiter", "measurements", "strategy", "strategy/matchers",
	"patterns/pool", "metric_registry/gometrics", "metric_registry/datadog",
}

var importMap = map[string]string{
	"sync":        "verif/vrt/vsync",
	"sync/atomic": "verif/vrt/vatomic",
	"time":        "verif/vrt/vtime",
	"context":     "verif/vrt/vctx",
	"math/rand":   "verif/vrt/vrand",
}

var defaultName = map[string]string{
	"sync": "sync", "sync/atomic": "atomic", "time": "time", "context": "context", "math/rand": "rand",
}

// Result describes what the pass did.
type Result struct {
	Files     int
	Overlay   string
	Selects   int
	GoStmts   int
	ChanTypes int
}

// Run rewrites the packages of repo into outDir and writes outDir/overlay.json. extra maps
// additional overlay entries (absolute path in repo -> file with replacement contents).
func Run(repo, outDir string, extra map[string]string) (*Result, error) {
	res := &Result{}
	overlay := map[string]string{}
	for _, pkg := range Packages {
		dir := filepath.Join(repo, pkg)
		ents, err := os.ReadDir(dir)
		if err != nil {
			return nil, err
		}
		var srcs []string
		for _, e := range ents {
			name := e.Name()
			if e.IsDir() || !strings.HasSuffix(name, ".go") || strings.HasSuffix(name, "_test.go") {
				continue
			}
			src := filepath.Join(dir, name)
			if alt, ok := extra[src]; ok {
				src = alt
			}
			srcs = append(srcs, src)
		}
		findMapRanges(srcs)
		for _, e := range ents {
			name := e.Name()
			if e.IsDir() || !strings.HasSuffix(name, ".go") || strings.HasSuffix(name, "_test.go") {
				continue
			}
			src := filepath.Join(dir, name)
			if alt, ok := extra[src]; ok {
				src = alt
			}
			out, st, err := File(src)
			if err != nil {
				return nil, fmt.Errorf("%s: %w", src, err)
			}
			dst := filepath.Join(outDir, "src", pkg, name)
			if err := os.MkdirAll(filepath.Dir(dst), 0o755); err != nil {
				return nil, err
			}
			if err := os.WriteFile(dst, out, 0o644); err != nil {
				return nil, err
			}
			overlay[filepath.Join(dir, name)] = dst
			res.Files++
			res.Selects += st.selects
			res.GoStmts += st.gos
			res.ChanTypes += st.chans
		}
	}
	b, _ := json.MarshalIndent(map[string]any{"Replace": overlay}, "", " ")
	res.Overlay = filepath.Join(outDir, "overlay.json")
	if err := os.WriteFile(res.Overlay, b, 0o644); err != nil {
		return nil, err
	}
	return res, nil
}

type stats struct{ selects, gos, chans int }

type rw struct {
	fset      *token.FileSet
	n         int
	needVchan bool
	needVrt   bool
	needVmap  bool
	mapSites  map[[2]int]bool // (line, column) of range statements over maps in this file
	chanSites map[[2]int]bool // … over channels
	lenSites  map[[2]int]bool // (line, column of the parenthesis) of len/cap calls on channels
	st        stats
}

// mapRangeSites: file -> positions of `for … range m` statements whose operand is a map with an
// ordered key type. Filled per package by findMapRanges (which needs the whole package to resolve
// field types), consumed by File.
var mapRangeSites = map[string]map[[2]int]bool{}

// chanRangeSites / chanLenSites: `for v := range ch` statements and len(ch)/cap(ch) calls on channels.
var chanRangeSites = map[string]map[[2]int]bool{}
var chanLenSites = map[string]map[[2]int]bool{}

func mark(sites map[string]map[[2]int]bool, pos token.Position) {
	if sites[pos.Filename] == nil {
		sites[pos.Filename] = map[[2]int]bool{}
	}
	sites[pos.Filename][[2]int{pos.Line, pos.Column}] = true
}

type tolerantImporter struct{}

func (tolerantImporter) Import(path string) (*types.Package, error) {
	p := types.NewPackage(path, path[strings.LastIndex(path, "/")+1:])
	p.MarkComplete()
	return p, nil
}

// Prepare analyses the files of one package (all of them together) before File is called on each.
func Prepare(paths []string) { findMapRanges(paths) }

// findMapRanges type-checks one package's files just far enough to know which range statements
// iterate over maps. Imports resolve to empty packages and every error is ignored: the types of the
// package's own struct fields, parameters and locals — all a range operand needs — still resolve.
func findMapRanges(paths []string) {
	fset := token.NewFileSet()
	var files []*ast.File
	for _, p := range paths {
		f, err := parser.ParseFile(fset, p, nil, 0)
		if err != nil {
			return
		}
		files = append(files, f)
	}
	info := &types.Info{Types: map[ast.Expr]types.TypeAndValue{}}
	conf := types.Config{Importer: tolerantImporter{}, Error: func(error) {}, DisableUnusedImportCheck: true}
	conf.Check("p", fset, files, info)
	for _, f := range files {
		ast.Inspect(f, func(n ast.Node) bool {
			if ce, ok := n.(*ast.CallExpr); ok && len(ce.Args) == 1 {
				// len(ch) / cap(ch)
				if id, ok := ce.Fun.(*ast.Ident); ok && (id.Name == "len" || id.Name == "cap") {
					if tv, ok := info.Types[ce.Args[0]]; ok && tv.Type != nil {
						if _, isChan := tv.Type.Underlying().(*types.Chan); isChan {
							mark(chanLenSites, fset.Position(ce.Lparen))
						}
					}
				}
				return true
			}
			rs, ok := n.(*ast.RangeStmt)
			if !ok {
				return true
			}
			tv, ok := info.Types[rs.X]
			if !ok || tv.Type == nil {
				return true
			}
			if _, isChan := tv.Type.Underlying().(*types.Chan); isChan {
				pos := fset.Position(rs.For)
				mark(chanRangeSites, pos)
				return true
			}
			m, ok := tv.Type.Underlying().(*types.Map)
			if !ok {
				return true
			}
			if b, ok := m.Key().Underlying().(*types.Basic); !ok || b.Info()&types.IsOrdered == 0 {
				return true
			}
			mark(mapRangeSites, fset.Position(rs.For))
			return true
		})
	}
}

// File rewrites one source file and returns the new contents.
func File(path string) ([]byte, stats, error) {
	fset := token.NewFileSet()
	f, err := parser.ParseFile(fset, path, nil, parser.SkipObjectResolution)
	if err != nil {
		return nil, stats{}, err
	}
	r := &rw{fset: fset, mapSites: mapRangeSites[path], chanSites: chanRangeSites[path], lenSites: chanLenSites[path]}
	// 1. imports
	for _, im := range f.Imports {
		p, _ := strconv.Unquote(im.Path.Value)
		if to, ok := importMap[p]; ok {
			if im.Name == nil {
				im.Name = ast.NewIdent(defaultName[p])
			}
			im.Path = &ast.BasicLit{Kind: token.STRING, Value: strconv.Quote(to)}
		}
	}
	// 2. statements and expressions
	for _, d := range f.Decls {
		r.decl(d)
	}
	// 3. extra imports
	if r.needVchan {
		addImport(f, "vchan", "verif/vrt/vchan")
	}
	if r.needVrt {
		addImport(f, "vrt", "verif/vrt")
	}
	if r.needVmap {
		addImport(f, "vmap", "verif/vrt/vmap")
	}
	f.Comments = nil
	stripDocs(f)
	var buf bytes.Buffer
	if err := format.Node(&buf, token.NewFileSet(), f); err != nil {
		return nil, stats{}, err
	}
	return buf.Bytes(), r.st, nil
}

func stripDocs(f *ast.File) {
	f.Doc = nil
	ast.Inspect(f, func(n ast.Node) bool {
		switch x := n.(type) {
		case *ast.GenDecl:
			x.Doc = nil
		case *ast.FuncDecl:
			x.Doc = nil
		case *ast.Field:
			x.Doc, x.Comment = nil, nil
		case *ast.TypeSpec:
			x.Doc, x.Comment = nil, nil
		case *ast.ValueSpec:
			x.Doc, x.Comment = nil, nil
		case *ast.ImportSpec:
			x.Doc, x.Comment = nil, nil
		}
		return true
	})
}

func addImport(f *ast.File, name, path string) {
	spec := &ast.ImportSpec{Name: ast.NewIdent(name), Path: &ast.BasicLit{Kind: token.STRING, Value: strconv.Quote(path)}}
	for _, d := range f.Decls {
		if g, ok := d.(*ast.GenDecl); ok && g.Tok == token.IMPORT {
			g.Specs = append(g.Specs, spec)
			if !g.Lparen.IsValid() {
				g.Lparen = 1
				g.Rparen = 1
			}
			f.Imports = append(f.Imports, spec)
			return
		}
	}
	g := &ast.GenDecl{Tok: token.IMPORT, Specs: []ast.Spec{spec}}
	f.Decls = append([]ast.Decl{g}, f.Decls...)
	f.Imports = append(f.Imports, spec)
}

func sel(pkg, name string) ast.Expr {
	return &ast.SelectorExpr{X: ast.NewIdent(pkg), Sel: ast.NewIdent(name)}
}

func call(fun ast.Expr, args ...ast.Expr) *ast.CallExpr { return &ast.CallExpr{Fun: fun, Args: args} }

func (r *rw) decl(d ast.Decl) {
	switch x := d.(type) {
	case *ast.GenDecl:
		for _, s := range x.Specs {
			switch sp := s.(type) {
			case *ast.TypeSpec:
				if sp.TypeParams != nil {
					r.fieldList(sp.TypeParams)
				}
				sp.Type = r.expr(sp.Type)
			case *ast.ValueSpec:
				if sp.Type != nil {
					sp.Type = r.expr(sp.Type)
				}
				for i := range sp.Values {
					sp.Values[i] = r.expr(sp.Values[i])
				}
			}
		}
	case *ast.FuncDecl:
		if x.Recv != nil {
			r.fieldList(x.Recv)
		}
		r.funcType(x.Type)
		if x.Body != nil {
			r.block(x.Body)
		}
	}
}

func (r *rw) fieldList(fl *ast.FieldList) {
	if fl == nil {
		return
	}
	for _, f := range fl.List {
		f.Type = r.expr(f.Type)
	}
}

func (r *rw) funcType(ft *ast.FuncType) {
	if ft.TypeParams != nil {
		r.fieldList(ft.TypeParams)
	}
	r.fieldList(ft.Params)
	r.fieldList(ft.Results)
}

func (r *rw) exprs(es []ast.Expr) {
	for i := range es {
		es[i] = r.expr(es[i])
	}
}

// expr rewrites an expression (or type expression) and returns the replacement.
func (r *rw) expr(e ast.Expr) ast.Expr {
	switch x := e.(type) {
	case nil:
		return nil
	case *ast.ChanType:
		r.st.chans++
		r.needVchan = true
		elem := r.expr(x.Value)
		return &ast.StarExpr{X: &ast.IndexExpr{X: sel("vchan", "Chan"), Index: elem}}
	case *ast.UnaryExpr:
		x.X = r.expr(x.X)
		if x.Op == token.ARROW {
			return call(&ast.SelectorExpr{X: paren(x.X), Sel: ast.NewIdent("Recv")})
		}
		return x
	case *ast.CallExpr:
		// make(chan T[, n]) and close(ch)
		if id, ok := x.Fun.(*ast.Ident); ok {
			if id.Name == "make" && len(x.Args) >= 1 {
				if ct, ok := x.Args[0].(*ast.ChanType); ok {
					r.needVchan = true
					r.st.chans++
					elem := r.expr(ct.Value)
					args := []ast.Expr{}
					for _, a := range x.Args[1:] {
						args = append(args, r.expr(a))
					}
					return call(&ast.IndexExpr{X: sel("vchan", "Make"), Index: elem}, args...)
				}
			}
			if id.Name == "close" && len(x.Args) == 1 {
				r.needVchan = true
				return call(sel("vchan", "Close"), r.expr(x.Args[0]))
			}
			if (id.Name == "len" || id.Name == "cap") && len(x.Args) == 1 {
				if p := r.fset.Position(x.Lparen); r.lenSites[[2]int{p.Line, p.Column}] {
					m := map[string]string{"len": "Len", "cap": "Cap"}[id.Name]
					return call(&ast.SelectorExpr{X: paren(r.expr(x.Args[0])), Sel: ast.NewIdent(m)})
				}
			}
		}
		x.Fun = r.expr(x.Fun)
		r.exprs(x.Args)
		return x
	case *ast.ParenExpr:
		x.X = r.expr(x.X)
		return x
	case *ast.SelectorExpr:
		x.X = r.expr(x.X)
		return x
	case *ast.IndexExpr:
		x.X = r.expr(x.X)
		x.Index = r.expr(x.Index)
		return x
	case *ast.IndexListExpr:
		x.X = r.expr(x.X)
		r.exprs(x.Indices)
		return x
	case *ast.SliceExpr:
		x.X = r.expr(x.X)
		x.Low, x.High, x.Max = r.expr(x.Low), r.expr(x.High), r.expr(x.Max)
		return x
	case *ast.StarExpr:
		x.X = r.expr(x.X)
		return x
	case *ast.TypeAssertExpr:
		x.X = r.expr(x.X)
		x.Type = r.expr(x.Type)
		return x
	case *ast.BinaryExpr:
		x.X, x.Y = r.expr(x.X), r.expr(x.Y)
		return x
	case *ast.KeyValueExpr:
		x.Key, x.Value = r.expr(x.Key), r.expr(x.Value)
		return x
	case *ast.CompositeLit:
		x.Type = r.expr(x.Type)
		r.exprs(x.Elts)
		return x
	case *ast.FuncLit:
		r.funcType(x.Type)
		r.block(x.Body)
		return x
	case *ast.ArrayType:
		x.Len = r.expr(x.Len)
		x.Elt = r.expr(x.Elt)
		return x
	case *ast.MapType:
		x.Key, x.Value = r.expr(x.Key), r.expr(x.Value)
		return x
	case *ast.StructType:
		r.fieldList(x.Fields)
		return x
	case *ast.InterfaceType:
		r.fieldList(x.Methods)
		return x
	case *ast.FuncType:
		r.funcType(x)
		return x
	case *ast.Ellipsis:
		x.Elt = r.expr(x.Elt)
		return x
	}
	return e
}

func paren(e ast.Expr) ast.Expr {
	switch e.(type) {
	case *ast.Ident, *ast.SelectorExpr, *ast.CallExpr, *ast.IndexExpr, *ast.ParenExpr:
		return e
	}
	return &ast.ParenExpr{X: e}
}

func (r *rw) block(b *ast.BlockStmt) {
	if b == nil {
		return
	}
	b.List = r.stmts(b.List)
}

func (r *rw) stmts(list []ast.Stmt) []ast.Stmt {
	var out []ast.Stmt
	for _, s := range list {
		out = append(out, r.stmt(s)...)
	}
	return out
}

// one rewrites s into exactly one statement (wrapping in a block if needed).
func (r *rw) one(s ast.Stmt) ast.Stmt {
	if s == nil {
		return nil
	}
	ss := r.stmt(s)
	if len(ss) == 1 {
		return ss[0]
	}
	return &ast.BlockStmt{List: ss}
}

func (r *rw) tmp(prefix string) string {
	r.n++
	return fmt.Sprintf("_%s%d", prefix, r.n)
}

// stmt rewrites a statement into a list of statements.
func (r *rw) stmt(s ast.Stmt) []ast.Stmt {
	switch x := s.(type) {
	case nil:
		return nil
	case *ast.SendStmt:
		ch, v := r.expr(x.Chan), r.expr(x.Value)
		return []ast.Stmt{&ast.ExprStmt{X: call(&ast.SelectorExpr{X: paren(ch), Sel: ast.NewIdent("Send")}, v)}}
	case *ast.GoStmt:
		r.st.gos++
		r.needVrt = true
		c := x.Call
		c.Fun = r.expr(c.Fun)
		var pre []ast.Stmt
		// evaluate function value and arguments now, as the go statement does
		if _, isLit := c.Fun.(*ast.FuncLit); !isLit {
			if _, isId := c.Fun.(*ast.Ident); !isId {
				if se, ok := c.Fun.(*ast.SelectorExpr); ok {
					// method value or package function: bind the receiver expression if it is not a plain identifier
					if _, plain := se.X.(*ast.Ident); !plain {
						n := r.tmp("g")
						pre = append(pre, &ast.AssignStmt{Lhs: []ast.Expr{ast.NewIdent(n)}, Tok: token.DEFINE, Rhs: []ast.Expr{c.Fun}})
						c.Fun = ast.NewIdent(n)
					}
				}
			}
		}
		for i, a := range c.Args {
			a = r.expr(a)
			n := r.tmp("g")
			pre = append(pre, &ast.AssignStmt{Lhs: []ast.Expr{ast.NewIdent(n)}, Tok: token.DEFINE, Rhs: []ast.Expr{a}})
			c.Args[i] = ast.NewIdent(n)
		}
		var body ast.Expr
		if fl, ok := c.Fun.(*ast.FuncLit); ok && len(c.Args) == 0 {
			body = fl
		} else {
			body = &ast.FuncLit{Type: &ast.FuncType{Params: &ast.FieldList{}}, Body: &ast.BlockStmt{List: []ast.Stmt{&ast.ExprStmt{X: c}}}}
		}
		goCall := &ast.ExprStmt{X: call(sel("vrt", "Go"), body)}
		if len(pre) == 0 {
			return []ast.Stmt{goCall}
		}
		return []ast.Stmt{&ast.BlockStmt{List: append(pre, goCall)}}
	case *ast.SelectStmt:
		return r.selectStmt(x, nil)
	case *ast.LabeledStmt:
		if ss, ok := x.Stmt.(*ast.SelectStmt); ok {
			return r.selectStmt(ss, x)
		}
		if rs, ok := x.Stmt.(*ast.RangeStmt); ok {
			return r.rangeStmt(rs, x)
		}
		x.Stmt = r.one(x.Stmt)
		return []ast.Stmt{x}
	case *ast.ExprStmt:
		x.X = r.expr(x.X)
		return []ast.Stmt{x}
	case *ast.AssignStmt:
		// v, ok := <-ch
		if len(x.Lhs) == 2 && len(x.Rhs) == 1 {
			if u, ok := x.Rhs[0].(*ast.UnaryExpr); ok && u.Op == token.ARROW {
				ch := r.expr(u.X)
				r.exprs(x.Lhs)
				x.Rhs[0] = call(&ast.SelectorExpr{X: paren(ch), Sel: ast.NewIdent("Recv2")})
				return []ast.Stmt{x}
			}
		}
		r.exprs(x.Lhs)
		r.exprs(x.Rhs)
		return []ast.Stmt{x}
	case *ast.DeclStmt:
		r.decl(x.Decl)
		return []ast.Stmt{x}
	case *ast.BlockStmt:
		r.block(x)
		return []ast.Stmt{x}
	case *ast.IfStmt:
		x.Init = r.one(x.Init)
		x.Cond = r.expr(x.Cond)
		r.block(x.Body)
		x.Else = r.one(x.Else)
		return []ast.Stmt{x}
	case *ast.ForStmt:
		x.Init = r.one(x.Init)
		x.Cond = r.expr(x.Cond)
		x.Post = r.one(x.Post)
		r.block(x.Body)
		return []ast.Stmt{x}
	case *ast.RangeStmt:
		return r.rangeStmt(x, nil)
	case *ast.SwitchStmt:
		x.Init = r.one(x.Init)
		x.Tag = r.expr(x.Tag)
		r.block(x.Body)
		return []ast.Stmt{x}
	case *ast.TypeSwitchStmt:
		x.Init = r.one(x.Init)
		x.Assign = r.one(x.Assign)
		r.block(x.Body)
		return []ast.Stmt{x}
	case *ast.CaseClause:
		r.exprs(x.List)
		x.Body = r.stmts(x.Body)
		return []ast.Stmt{x}
	case *ast.ReturnStmt:
		r.exprs(x.Results)
		return []ast.Stmt{x}
	case *ast.DeferStmt:
		x.Call = r.expr(x.Call).(*ast.CallExpr)
		return []ast.Stmt{x}
	case *ast.IncDecStmt:
		x.X = r.expr(x.X)
		return []ast.Stmt{x}
	}
	return []ast.Stmt{s}
}

// rangeStmt rewrites a range statement. Over a map with an ordered key type (see findMapRanges)
//
//	for k, v := range m { body }
//
// becomes an iteration in ascending key order that keeps Go's guarantee about entries deleted
// during the loop:
//
//	{ _m := m; for _, k := range vmap.SortedKeys(_m) { v, _ok := _m[k]; if !_ok { continue }; body } }
func (r *rw) rangeStmt(x *ast.RangeStmt, label *ast.LabeledStmt) []ast.Stmt {
	pos := r.fset.Position(x.For)
	isMap := r.mapSites[[2]int{pos.Line, pos.Column}] && (x.Tok == token.DEFINE || (x.Key == nil && x.Value == nil))
	x.Key, x.Value, x.X = r.expr(x.Key), r.expr(x.Value), r.expr(x.X)
	r.block(x.Body)
	wrap := func(s ast.Stmt) ast.Stmt {
		if label != nil {
			label.Stmt = s
			return label
		}
		return s
	}
	if r.chanSites[[2]int{pos.Line, pos.Column}] && (x.Tok == token.DEFINE || x.Key == nil) {
		// for v := range ch { body }  =>  for { v, _ok := ch.Recv2(); if !_ok { break }; body }
		okv := ast.NewIdent(r.tmp("ok"))
		var val ast.Expr = ast.NewIdent("_")
		if x.Key != nil {
			if id, isID := x.Key.(*ast.Ident); !isID || id.Name != "_" {
				val = x.Key
			}
		}
		recv := &ast.AssignStmt{Lhs: []ast.Expr{val, okv}, Tok: token.DEFINE, Rhs: []ast.Expr{call(&ast.SelectorExpr{X: paren(x.X), Sel: ast.NewIdent("Recv2")})}}
		stop := &ast.IfStmt{Cond: &ast.UnaryExpr{Op: token.NOT, X: okv}, Body: &ast.BlockStmt{List: []ast.Stmt{&ast.BranchStmt{Tok: token.BREAK}}}}
		loop := &ast.ForStmt{Body: &ast.BlockStmt{List: append([]ast.Stmt{recv, stop}, x.Body.List...)}}
		return []ast.Stmt{wrap(loop)}
	}
	if !isMap {
		return []ast.Stmt{wrap(x)}
	}
	r.needVmap = true
	blank := func(e ast.Expr) bool {
		id, ok := e.(*ast.Ident)
		return e == nil || (ok && id.Name == "_")
	}
	m := ast.NewIdent(r.tmp("m"))
	okv := ast.NewIdent(r.tmp("ok"))
	var key ast.Expr = ast.NewIdent(r.tmp("k"))
	if !blank(x.Key) {
		key = x.Key
	}
	var val ast.Expr = ast.NewIdent("_")
	if !blank(x.Value) {
		val = x.Value
	}
	lookup := &ast.AssignStmt{Lhs: []ast.Expr{val, okv}, Tok: token.DEFINE, Rhs: []ast.Expr{&ast.IndexExpr{X: m, Index: key}}}
	skip := &ast.IfStmt{Cond: &ast.UnaryExpr{Op: token.NOT, X: okv}, Body: &ast.BlockStmt{List: []ast.Stmt{&ast.BranchStmt{Tok: token.CONTINUE}}}}
	body := &ast.BlockStmt{List: append([]ast.Stmt{lookup, skip}, x.Body.List...)}
	loop := &ast.RangeStmt{Key: ast.NewIdent("_"), Value: key, Tok: token.DEFINE, X: call(sel("vmap", "SortedKeys"), m), Body: body}
	bind := &ast.AssignStmt{Lhs: []ast.Expr{m}, Tok: token.DEFINE, Rhs: []ast.Expr{x.X}}
	return []ast.Stmt{&ast.BlockStmt{List: []ast.Stmt{bind, wrap(loop)}}}
}

// selectStmt turns a select into case-variable declarations followed by a switch on
// vchan.Select(...).
func (r *rw) selectStmt(x *ast.SelectStmt, label *ast.LabeledStmt) []ast.Stmt {
	r.st.selects++
	r.needVchan = true
	var pre []ast.Stmt
	var args []ast.Expr
	sw := &ast.SwitchStmt{Body: &ast.BlockStmt{}}
	hasDefault := false
	idx := 0
	for _, cs := range x.Body.List {
		cc := cs.(*ast.CommClause)
		body := r.stmts(cc.Body)
		if cc.Comm == nil {
			hasDefault = true
			sw.Body.List = append(sw.Body.List, &ast.CaseClause{List: nil, Body: body})
			continue
		}
		name := r.tmp("c")
		var mk ast.Expr
		var head []ast.Stmt
		switch c := cc.Comm.(type) {
		case *ast.SendStmt:
			mk = call(sel("vchan", "S"), r.expr(c.Chan), r.expr(c.Value))
		case *ast.ExprStmt: // <-ch
			u := unparen(c.X).(*ast.UnaryExpr)
			mk = call(sel("vchan", "R"), r.expr(u.X))
		case *ast.AssignStmt: // v := <-ch ; v, ok := <-ch ; v = <-ch
			u := unparen(c.Rhs[0]).(*ast.UnaryExpr)
			mk = call(sel("vchan", "R"), r.expr(u.X))
			rhs := []ast.Expr{&ast.SelectorExpr{X: ast.NewIdent(name), Sel: ast.NewIdent("V")}}
			if len(c.Lhs) == 2 {
				rhs = append(rhs, &ast.SelectorExpr{X: ast.NewIdent(name), Sel: ast.NewIdent("OK")})
			}
			r.exprs(c.Lhs)
			head = append(head, &ast.AssignStmt{Lhs: c.Lhs, Tok: c.Tok, Rhs: rhs})
			if c.Tok == token.DEFINE {
				// silence "declared and not used" for names the original body ignores
				for _, l := range c.Lhs {
					if id, ok := l.(*ast.Ident); ok && id.Name != "_" {
						head = append(head, &ast.AssignStmt{Lhs: []ast.Expr{ast.NewIdent("_")}, Tok: token.ASSIGN, Rhs: []ast.Expr{ast.NewIdent(id.Name)}})
					}
				}
			}
		}
		pre = append(pre, &ast.AssignStmt{Lhs: []ast.Expr{ast.NewIdent(name)}, Tok: token.DEFINE, Rhs: []ast.Expr{mk}})
		args = append(args, ast.NewIdent(name))
		sw.Body.List = append(sw.Body.List, &ast.CaseClause{
			List: []ast.Expr{&ast.BasicLit{Kind: token.INT, Value: strconv.Itoa(idx)}},
			Body: append(head, body...),
		})
		idx++
	}
	if !hasDefault {
		sw.Body.List = append(sw.Body.List, &ast.CaseClause{List: nil, Body: []ast.Stmt{
			&ast.ExprStmt{X: call(ast.NewIdent("panic"), &ast.BasicLit{Kind: token.STRING, Value: `"vchan.Select: unreachable"`})},
		}})
	}
	hd := "false"
	if hasDefault {
		hd = "true"
	}
	sw.Tag = call(sel("vchan", "Select"), append([]ast.Expr{ast.NewIdent(hd)}, args...)...)
	var last ast.Stmt = sw
	if label != nil {
		label.Stmt = sw
		last = label
	}
	return append(pre, last)
}

func unparen(e ast.Expr) ast.Expr {
	for {
		p, ok := e.(*ast.ParenExpr)
		if !ok {
			return e
		}
		e = p.X
	}
}

// SortedKeys is a small helper for deterministic output.
func SortedKeys(m map[string]string) []string {
	var ks []string
	for k := range m {
		ks = append(ks, k)
	}
	sort.Strings(ks)
	return ks
}
