module verif

go 1.23.0

require (
	github.com/anishathalye/porcupine v1.3.0
	github.com/platinummonkey/go-concurrency-limits v0.0.0
)

replace github.com/platinummonkey/go-concurrency-limits => /repo
