module verif

go 1.23.0

require (
	github.com/DataDog/datadog-go/v5 v5.6.0
	github.com/anishathalye/porcupine v1.3.0
	github.com/platinummonkey/go-concurrency-limits v0.0.0
	github.com/rcrowley/go-metrics v0.0.0-20180503174638-e2704e165165
	google.golang.org/grpc v1.71.1
)

require (
	golang.org/x/net v0.38.0 // indirect
	golang.org/x/sys v0.31.0 // indirect
	golang.org/x/text v0.23.0 // indirect
	google.golang.org/genproto/googleapis/rpc v0.0.0-20250115164207-1a7da9e5054f // indirect
	google.golang.org/protobuf v1.36.4 // indirect
)

replace github.com/platinummonkey/go-concurrency-limits => /repo
