// Command real runs every conformance program many times under the real Go runtime, with random
// perturbation at the programs' Jitter points and varying GOMAXPROCS, and prints the set of outcomes
// seen per program as JSON. It is the implementation side of the shim-conformance check.
package main

import (
	"encoding/json"
	"flag"
	"fmt"
	"math/rand"
	"os"
	"runtime"
	"sort"
	"sync"
	"time"

	"verif/conformance/progs"
)

func main() {
	runs := flag.Int("runs", 400, "runs per untimed program")
	timedRuns := flag.Int("timed-runs", 24, "runs per timed program")
	stickRuns := flag.Int("stick-runs", 120, "runs per program that may block for ever")
	out := flag.String("out", "", "output file")
	flag.Parse()
	var rmu sync.Mutex
	rng := rand.New(rand.NewSource(1))
	progs.Jitter = func() {
		rmu.Lock()
		k := rng.Intn(8)
		d := time.Duration(rng.Intn(300)) * time.Microsecond
		rmu.Unlock()
		switch {
		case k < 3:
		case k < 5:
			runtime.Gosched()
		default:
			time.Sleep(d)
		}
	}
	res := map[string]map[string]int{}
	for _, p := range progs.All {
		n := *runs
		wd := 20 * time.Second
		if p.Timed {
			n = *timedRuns
		}
		if p.MayStick {
			n = *stickRuns
			wd = 150 * time.Millisecond
		}
		seen := map[string]int{}
		var mu sync.Mutex
		one := func() {
			ch := make(chan string, 1)
			go func() { ch <- p.Run() }()
			var o string
			select {
			case o = <-ch:
			case <-time.After(wd):
				o = "stuck"
			}
			mu.Lock()
			seen[o]++
			mu.Unlock()
		}
		for _, procs := range []int{1, 2, 8} {
			runtime.GOMAXPROCS(procs)
			if p.Timed || p.MayStick {
				// independent runs side by side (each run is closed over its own objects)
				var wg sync.WaitGroup
				for i := 0; i < n/3+1; i++ {
					wg.Add(1)
					go func() { defer wg.Done(); one() }()
					if i%8 == 7 {
						wg.Wait()
					}
				}
				wg.Wait()
			} else {
				for i := 0; i < n/3+1; i++ {
					one()
				}
			}
		}
		res[p.Name] = seen
	}
	names := make([]string, 0, len(res))
	for k := range res {
		names = append(names, k)
	}
	sort.Strings(names)
	b, _ := json.MarshalIndent(res, "", " ")
	if *out != "" {
		if err := os.WriteFile(*out, b, 0o644); err != nil {
			fmt.Fprintln(os.Stderr, err)
			os.Exit(3)
		}
		return
	}
	fmt.Println(string(b))
}
