// Command model explores every conformance program exhaustively (every schedule, no preemption
// bound, no state caching) under the virtual runtime — the program source having gone through the
// same rewriter as the repository — and prints the complete outcome set per program as JSON: once
// with the lazy clock (time advances only at quiescence) and, for programs that use durations, once
// with the eager clock (a pending timer may fire at any schedule point).
package main

import (
	"encoding/json"
	"flag"
	"fmt"
	"os"
	"time"

	"verif/conformance/progs"
	"verif/mc"
	"verif/vrt"
)

type out struct {
	Lazy        map[string]int `json:"lazy"`
	Eager       map[string]int `json:"eager,omitempty"`
	Executions  int64          `json:"executions"`
	EagerExecs  int64          `json:"eager_executions,omitempty"`
	Exhaustive  bool           `json:"exhaustive"`
	EagerBound  int            `json:"eager_preemption_bound,omitempty"`
	SchedPoints int64          `json:"schedule_points"`
}

func explore(p progs.Prog, eager bool, bound int, deadline time.Time) (map[string]int, *mc.Stats) {
	seen := map[string]int{}
	var cur string
	sc := &mc.Scenario{
		Name: "conf/" + p.Name,
		Cfg:  vrt.Config{EagerClock: eager, MaxSteps: 20000},
		Body: func(x *mc.Exec) {
			cur = ""
			cur = p.Run()
		},
		Post: func(x *mc.Exec, r *vrt.Result) {
			o := cur
			switch {
			case r.Internal != "":
				o = "internal:" + r.Internal
			case r.Panic != "":
				o = "panic:" + r.Panic
			case r.Stuck:
				o = "stuck"
			case r.Capped:
				o = "capped"
			}
			seen[o]++
		},
	}
	st := mc.Explore(sc, mc.Options{PreemptBound: bound, DevBound: -1, NoCache: true, Deadline: deadline})
	return seen, st
}

func main() {
	outF := flag.String("out", "", "output file")
	expect := flag.Bool("expect", false, "print the expected outcome sets and exit")
	flag.Parse()
	if *expect {
		e := map[string][]string{}
		for _, p := range progs.All {
			e[p.Name] = p.Expect
		}
		b, _ := json.Marshal(e)
		fmt.Println(string(b))
		return
	}
	res := map[string]*out{}
	deadline := time.Now().Add(10 * time.Minute)
	for _, p := range progs.All {
		o := &out{}
		lazy, st := explore(p, false, -1, deadline)
		o.Lazy, o.Executions, o.Exhaustive, o.SchedPoints = lazy, st.Executions, st.Exhaustive, st.Steps
		if p.Timed {
			o.EagerBound = 3
			eg, st2 := explore(p, true, o.EagerBound, deadline)
			o.Eager, o.EagerExecs = eg, st2.Executions
			o.Exhaustive = o.Exhaustive && st2.Exhaustive
		}
		res[p.Name] = o
	}
	b, _ := json.MarshalIndent(res, "", " ")
	if *outF != "" {
		if err := os.WriteFile(*outF, b, 0o644); err != nil {
			fmt.Fprintln(os.Stderr, err)
			os.Exit(3)
		}
		return
	}
	fmt.Println(string(b))
}
