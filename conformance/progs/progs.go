// Package progs holds the shim-conformance programs: small closed programs written against the
// real sync, sync/atomic, time and context packages and native channels — the constructs the
// repository uses. The same source is (a) run many times under the real Go runtime and (b) passed
// through the rewriter and explored exhaustively under the virtual runtime; see ../README.md.
package progs

import (
	"context"
	"fmt"
	"sync"
	"sync/atomic"
	"time"
)

// Jitter is a perturbation point: under the real runtime the runner makes it yield or sleep at
// random so that rare interleavings show up; under the model it does nothing (every
// synchronisation operation is already a schedule point).
var Jitter = func() {}

// Prog is one conformance program. Run returns the outcome of one execution; an execution that
// blocks for ever has outcome "stuck". Expect lists every outcome the Go semantics allow, which the
// exhaustive model exploration must reproduce exactly. MayStick marks programs for which "stuck" is
// an allowed outcome (the real runner then uses a short watchdog). Timed marks programs that use
// real durations.
type Prog struct {
	Name     string
	Run      func() string
	Expect   []string
	MayStick bool
	Timed    bool
}

// All is the suite.
var All = []Prog{
	{Name: "mutex-counter", Run: mutexCounter, Expect: []string{"2"}},
	{Name: "atomic-load-store-lost-update", Run: atomicLostUpdate, Expect: []string{"1", "2"}},
	{Name: "atomic-add", Run: atomicAdd, Expect: []string{"2/1,2", "2/2,1"}},
	{Name: "atomic-value", Run: atomicValue, Expect: []string{"a", "b", "nil"}},
	{Name: "chan-rendezvous", Run: chanRendezvous, Expect: []string{"7"}},
	{Name: "chan-buffered-capacity", Run: chanBuffered, Expect: []string{"full,1,2"}},
	{Name: "chan-trysend-needs-parked-receiver", Run: trySendParked, Expect: []string{"dropped:0", "sent:1"}},
	{Name: "chan-tryrecv-needs-parked-sender", Run: tryRecvParked, Expect: []string{"empty", "got:5"}},
	{Name: "chan-close-wakes-all", Run: closeWakesAll, Expect: []string{"false,false"}},
	{Name: "chan-send-on-closed-panics", Run: sendOnClosed, Expect: []string{"panic"}},
	{Name: "chan-fifo-senders", Run: chanFifo, Expect: []string{"1,2"}, Timed: true},
	{Name: "select-both-ready", Run: selectBothReady, Expect: []string{"a", "b"}},
	{Name: "select-blocks-until-ready", Run: selectBlocks, Expect: []string{"b:3"}},
	{Name: "select-nil-channel-arm", Run: selectNilArm, Expect: []string{"b"}},
	{Name: "cond-with-predicate", Run: condPredicate, Expect: []string{"woken"}},
	{Name: "cond-lost-signal", Run: condLostSignal, Expect: []string{"stuck", "woken"}, MayStick: true},
	{Name: "cond-signal-wakes-one", Run: condSignalOne, Expect: []string{"1"}},
	{Name: "cond-broadcast-wakes-all", Run: condBroadcast, Expect: []string{"2"}},
	{Name: "cond-broadcast-before-wait-is-lost", Run: condBroadcastRace, Expect: []string{"stuck", "woken"}, MayStick: true},
	{Name: "waitgroup", Run: waitGroup, Expect: []string{"3"}},
	{Name: "rwmutex-readers-overlap", Run: rwReaders, Expect: []string{"max=1", "max=2"}},
	{Name: "rwmutex-writer-excludes", Run: rwWriter, Expect: []string{"ok"}},
	{Name: "rwmutex-recursive-rlock-vs-writer", Run: rwRecursive, Expect: []string{"done", "stuck"}, MayStick: true},
	{Name: "rwmutex-tryrlock-with-pending-writer", Run: rwTryRLock, Expect: []string{"false", "true"}},
	{Name: "context-cancel-propagates", Run: ctxCancel, Expect: []string{"context canceled/context canceled"}},
	{Name: "context-already-cancelled", Run: ctxAlready, Expect: []string{"done:context canceled"}},
	{Name: "context-timeout", Run: ctxTimeout, Expect: []string{"context deadline exceeded"}, Timed: true},
	{Name: "context-value", Run: ctxValue, Expect: []string{"v/<nil>"}},
	{Name: "timer-order", Run: timerOrder, Expect: []string{"short"}, Timed: true},
	{Name: "timer-stop", Run: timerStop, Expect: []string{"true,false"}, Timed: true},
	{Name: "timer-reset", Run: timerReset, Expect: []string{"fired"}, Timed: true},
	{Name: "afterfunc", Run: afterFunc, Expect: []string{"fired"}, Timed: true},
	{Name: "sleep-advances-now", Run: sleepNow, Expect: []string{"true"}, Timed: true},
	{Name: "ticker", Run: ticker, Expect: []string{"2"}, Timed: true},
	{Name: "handoff-vs-timeout", Run: handoffTimeout, Expect: []string{"got/sent", "timeout/nosend"}, Timed: true},
	{Name: "chan-range-len-cap", Run: chanRangeLen, Expect: []string{"2/3:6"}},
	{Name: "map-iteration-order", Run: mapOrder, Expect: []string{"abc", "acb", "bac", "bca", "cab", "cba"}},
	{Name: "timeout-then-late-sender", Run: lateSender, Expect: []string{"timeout/nosend"}, Timed: true},
}

func mutexCounter() string {
	var mu sync.Mutex
	var wg sync.WaitGroup
	c := 0
	for i := 0; i < 2; i++ {
		wg.Add(1)
		go func() {
			defer wg.Done()
			mu.Lock()
			v := c
			Jitter()
			c = v + 1
			mu.Unlock()
		}()
	}
	wg.Wait()
	return fmt.Sprint(c)
}

func atomicLostUpdate() string {
	var c int32
	var wg sync.WaitGroup
	for i := 0; i < 2; i++ {
		wg.Add(1)
		go func() {
			defer wg.Done()
			v := atomic.LoadInt32(&c)
			Jitter()
			atomic.StoreInt32(&c, v+1)
		}()
	}
	wg.Wait()
	return fmt.Sprint(atomic.LoadInt32(&c))
}

func atomicAdd() string {
	var c int64
	var wg sync.WaitGroup
	var got [2]int64
	for i := 0; i < 2; i++ {
		i := i
		wg.Add(1)
		go func() {
			defer wg.Done()
			Jitter()
			got[i] = atomic.AddInt64(&c, 1)
		}()
	}
	wg.Wait()
	return fmt.Sprintf("%d/%d,%d", atomic.LoadInt64(&c), got[0], got[1])
}

func atomicValue() string {
	var v atomic.Value
	var wg sync.WaitGroup
	wg.Add(2)
	go func() { defer wg.Done(); Jitter(); v.Store("a") }()
	go func() { defer wg.Done(); Jitter(); v.Store("b") }()
	Jitter()
	x := v.Load()
	wg.Wait()
	if x == nil {
		return "nil"
	}
	return x.(string)
}

func chanRendezvous() string {
	ch := make(chan int)
	go func() { Jitter(); ch <- 7 }()
	Jitter()
	return fmt.Sprint(<-ch)
}

func chanBuffered() string {
	ch := make(chan int, 2)
	ch <- 1
	ch <- 2
	r := "room"
	select {
	case ch <- 3:
	default:
		r = "full"
	}
	return fmt.Sprintf("%s,%d,%d", r, <-ch, <-ch)
}

// A non-blocking send succeeds only if the receiver is already parked on the channel.
func trySendParked() string {
	ch := make(chan int)
	res := make(chan int, 1)
	go func() {
		Jitter()
		v := <-ch
		res <- v
	}()
	Jitter()
	select {
	case ch <- 1:
		return fmt.Sprintf("sent:%d", <-res)
	default:
		close(ch)
		return fmt.Sprintf("dropped:%d", <-res)
	}
}

func tryRecvParked() string {
	ch := make(chan int)
	done := make(chan struct{})
	go func() {
		Jitter()
		select {
		case ch <- 5:
		case <-done:
		}
	}()
	Jitter()
	select {
	case v := <-ch:
		return fmt.Sprintf("got:%d", v)
	default:
		close(done)
		return "empty"
	}
}

func closeWakesAll() string {
	ch := make(chan int)
	res := make(chan bool, 2)
	for i := 0; i < 2; i++ {
		go func() {
			Jitter()
			_, ok := <-ch
			res <- ok
		}()
	}
	Jitter()
	close(ch)
	return fmt.Sprintf("%v,%v", <-res, <-res)
}

func sendOnClosed() (out string) {
	ch := make(chan int, 1)
	close(ch)
	defer func() {
		if recover() != nil {
			out = "panic"
		}
	}()
	ch <- 1
	return "sent"
}

// Blocked senders are served in arrival order.
func chanFifo() string {
	ch := make(chan int)
	go func() { ch <- 1 }()
	go func() {
		time.Sleep(100 * time.Millisecond)
		ch <- 2
	}()
	time.Sleep(200 * time.Millisecond)
	a := <-ch
	b := <-ch
	return fmt.Sprintf("%d,%d", a, b)
}

func selectBothReady() string {
	a, b := make(chan int, 1), make(chan int, 1)
	a <- 1
	b <- 2
	select {
	case <-a:
		return "a"
	case <-b:
		return "b"
	}
}

func selectBlocks() string {
	a, b := make(chan int), make(chan int)
	go func() { Jitter(); b <- 3 }()
	select {
	case v := <-a:
		return fmt.Sprintf("a:%d", v)
	case v := <-b:
		return fmt.Sprintf("b:%d", v)
	}
}

func selectNilArm() string {
	var a chan int
	b := make(chan int, 1)
	b <- 1
	select {
	case <-a:
		return "a"
	case <-b:
		return "b"
	}
}

func condPredicate() string {
	var mu sync.Mutex
	c := sync.NewCond(&mu)
	ready := false
	go func() {
		Jitter()
		mu.Lock()
		ready = true
		mu.Unlock()
		c.Signal()
	}()
	Jitter()
	mu.Lock()
	for !ready {
		c.Wait()
	}
	mu.Unlock()
	return "woken"
}

// Wait without a predicate: a Signal sent before the waiter parks is lost.
func condLostSignal() string {
	var mu sync.Mutex
	c := sync.NewCond(&mu)
	go func() {
		Jitter()
		c.Signal()
	}()
	Jitter()
	mu.Lock()
	c.Wait()
	mu.Unlock()
	return "woken"
}

func condSignalOne() string {
	var mu sync.Mutex
	c := sync.NewCond(&mu)
	waiting, woken := 0, 0
	done := make(chan struct{}, 2)
	for i := 0; i < 2; i++ {
		go func() {
			mu.Lock()
			waiting++
			c.Wait()
			woken++
			mu.Unlock()
			done <- struct{}{}
		}()
	}
	for {
		mu.Lock()
		w := waiting
		mu.Unlock()
		if w == 2 {
			break
		}
		spin()
	}
	c.Signal()
	<-done
	mu.Lock()
	n := woken
	mu.Unlock()
	c.Broadcast() // let the other one finish
	<-done
	return fmt.Sprint(n)
}

func condBroadcast() string {
	var mu sync.Mutex
	c := sync.NewCond(&mu)
	waiting, woken := 0, 0
	done := make(chan struct{}, 2)
	for i := 0; i < 2; i++ {
		go func() {
			mu.Lock()
			waiting++
			c.Wait()
			woken++
			mu.Unlock()
			done <- struct{}{}
		}()
	}
	for {
		mu.Lock()
		w := waiting
		mu.Unlock()
		if w == 2 {
			break
		}
		spin()
	}
	c.Broadcast()
	<-done
	<-done
	return fmt.Sprint(woken)
}

// The blocking limiter's idiom: the waiter checks, unlocks, and only later locks again and waits;
// a broadcast in between is lost.
func condBroadcastRace() string {
	var mu sync.Mutex
	c := sync.NewCond(&mu)
	go func() {
		Jitter()
		mu.Lock()
		c.Broadcast()
		mu.Unlock()
	}()
	Jitter()
	mu.Lock()
	c.Wait()
	mu.Unlock()
	return "woken"
}

func waitGroup() string {
	var wg sync.WaitGroup
	var n int32
	for i := 0; i < 3; i++ {
		wg.Add(1)
		go func() { defer wg.Done(); Jitter(); atomic.AddInt32(&n, 1) }()
	}
	wg.Wait()
	return fmt.Sprint(atomic.LoadInt32(&n))
}

func rwReaders() string {
	var rw sync.RWMutex
	var in, max int32
	var wg sync.WaitGroup
	for i := 0; i < 2; i++ {
		wg.Add(1)
		go func() {
			defer wg.Done()
			Jitter()
			rw.RLock()
			n := atomic.AddInt32(&in, 1)
			for {
				m := atomic.LoadInt32(&max)
				if n <= m || atomic.CompareAndSwapInt32(&max, m, n) {
					break
				}
			}
			Jitter()
			atomic.AddInt32(&in, -1)
			rw.RUnlock()
		}()
	}
	wg.Wait()
	return fmt.Sprintf("max=%d", max)
}

func rwWriter() string {
	var rw sync.RWMutex
	var in int32
	bad := int32(0)
	var wg sync.WaitGroup
	wg.Add(2)
	go func() {
		defer wg.Done()
		Jitter()
		rw.Lock()
		if atomic.AddInt32(&in, 1) != 1 {
			atomic.StoreInt32(&bad, 1)
		}
		Jitter()
		atomic.AddInt32(&in, -1)
		rw.Unlock()
	}()
	go func() {
		defer wg.Done()
		Jitter()
		rw.RLock()
		if atomic.AddInt32(&in, 1) != 1 {
			atomic.StoreInt32(&bad, 1)
		}
		Jitter()
		atomic.AddInt32(&in, -1)
		rw.RUnlock()
	}()
	wg.Wait()
	if bad != 0 {
		return "overlap"
	}
	return "ok"
}

// Writer preference: a second RLock taken while a writer is pending blocks for ever.
func rwRecursive() string {
	var rw sync.RWMutex
	var wg sync.WaitGroup
	wg.Add(2)
	go func() {
		defer wg.Done()
		rw.RLock()
		Jitter()
		rw.RLock()
		rw.RUnlock()
		rw.RUnlock()
	}()
	go func() {
		defer wg.Done()
		Jitter()
		rw.Lock()
		rw.Unlock()
	}()
	wg.Wait()
	return "done"
}

func rwTryRLock() string {
	var rw sync.RWMutex
	rw.RLock()
	started := make(chan struct{})
	fin := make(chan struct{})
	go func() {
		close(started)
		rw.Lock() // pending until the reader leaves
		rw.Unlock()
		close(fin)
	}()
	<-started
	Jitter()
	ok := rw.TryRLock()
	if ok {
		rw.RUnlock()
	}
	rw.RUnlock()
	<-fin
	return fmt.Sprint(ok)
}

func ctxCancel() string {
	ctx, cancel := context.WithCancel(context.Background())
	child, cancel2 := context.WithCancel(ctx)
	defer cancel2()
	res := make(chan error, 1)
	go func() {
		<-child.Done()
		res <- child.Err()
	}()
	Jitter()
	cancel()
	e := <-res
	return fmt.Sprintf("%v/%v", e, ctx.Err())
}

func ctxAlready() string {
	ctx, cancel := context.WithCancel(context.Background())
	cancel()
	select {
	case <-ctx.Done():
		return fmt.Sprintf("done:%v", ctx.Err())
	default:
		return "open"
	}
}

func ctxTimeout() string {
	ctx, cancel := context.WithTimeout(context.Background(), 20*time.Millisecond)
	defer cancel()
	select {
	case <-ctx.Done():
		return fmt.Sprint(ctx.Err())
	case <-time.After(5 * time.Second):
		return "late"
	}
}

type ctxKey int

func ctxValue() string {
	ctx := context.WithValue(context.Background(), ctxKey(1), "v")
	child, cancel := context.WithCancel(ctx)
	defer cancel()
	return fmt.Sprintf("%v/%v", child.Value(ctxKey(1)), child.Value(ctxKey(2)))
}

func timerOrder() string {
	long := time.After(5 * time.Second)
	short := time.After(10 * time.Millisecond)
	select {
	case <-long:
		return "long"
	case <-short:
		return "short"
	}
}

func timerStop() string {
	t := time.NewTimer(5 * time.Second)
	a := t.Stop()
	b := t.Stop()
	return fmt.Sprintf("%v,%v", a, b)
}

func timerReset() string {
	t := time.NewTimer(time.Hour)
	t.Reset(10 * time.Millisecond)
	select {
	case <-t.C:
		return "fired"
	case <-time.After(5 * time.Second):
		return "late"
	}
}

func afterFunc() string {
	ch := make(chan int, 1)
	time.AfterFunc(10*time.Millisecond, func() { ch <- 1 })
	select {
	case <-ch:
		return "fired"
	case <-time.After(5 * time.Second):
		return "late"
	}
}

func sleepNow() string {
	t0 := time.Now()
	time.Sleep(30 * time.Millisecond)
	return fmt.Sprint(time.Since(t0) >= 30*time.Millisecond)
}

func ticker() string {
	tk := time.NewTicker(10 * time.Millisecond)
	n := 0
	for n < 2 {
		<-tk.C
		n++
	}
	tk.Stop()
	return fmt.Sprint(n)
}

// The queue limiter's idiom: the waiter selects on a hand-off channel and a timer; the releaser
// offers the token with a non-blocking send.
func handoffTimeout() string {
	ch := make(chan int)
	res := make(chan string, 1)
	go func() {
		Jitter()
		select {
		case ch <- 1:
			res <- "sent"
		default:
			res <- "nosend"
		}
	}()
	Jitter()
	var r string
	select {
	case <-ch:
		r = "got"
	case <-time.After(40 * time.Millisecond):
		r = "timeout"
	}
	return r + "/" + <-res
}

// A sender that arrives after the waiter's timer has fired finds nobody.
func lateSender() string {
	ch := make(chan int)
	res := make(chan string, 1)
	go func() {
		time.Sleep(300 * time.Millisecond)
		select {
		case ch <- 1:
			res <- "sent"
		default:
			res <- "nosend"
		}
	}()
	var r string
	select {
	case <-ch:
		r = "got"
	case <-time.After(10 * time.Millisecond):
		r = "timeout"
	}
	return r + "/" + <-res
}

// spin is a polite busy-wait step: a schedule point under the model, a yield under the runtime.
func spin() { time.Sleep(time.Microsecond) }

// Map iteration order is unspecified: any order may be observed.
func mapOrder() string {
	m := map[string]int{"a": 1, "b": 2, "c": 3}
	out := ""
	for k := range m {
		out += k
	}
	return out
}

// Ranging over a channel ends when it is closed and drained; len and cap see the buffer.
func chanRangeLen() string {
	ch := make(chan int, 3)
	ch <- 1
	ch <- 2
	s := fmt.Sprintf("%d/%d:", len(ch), cap(ch))
	go func() {
		Jitter()
		ch <- 3
		close(ch)
	}()
	sum := 0
	for v := range ch {
		sum += v
	}
	return s + fmt.Sprint(sum)
}
