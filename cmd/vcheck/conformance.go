package main

import (
	"bytes"
	"encoding/json"
	"fmt"
	"os"
	"os/exec"
	"path/filepath"
	"sort"
	"time"

	"verif/rewrite"
)

// conformance binds the virtual runtime (the "model" every Mode-T check runs the repository on) to
// the real Go runtime: the programs of conformance/progs are explored exhaustively under the shims
// and run repeatedly under the runtime, and
//
//	(1) the model's complete outcome set must equal the hand-written set of outcomes the Go
//	    semantics allow (nothing impossible admitted, nothing possible missing), and
//	(2) every outcome the real runtime produced must be in the model's set (for timed programs: in
//	    the eager-clock set, which must contain the lazy-clock set).
//
// Exit 0 when both hold, 1 on a mismatch, 3 on an internal error. This is a self-check of the
// machinery, not a property check.
func conformance() {
	work := filepath.Join(verifDir, ".work", fmt.Sprintf("conf-%d", os.Getpid()))
	if err := os.MkdirAll(work, 0o755); err != nil {
		die(3, "%v", err)
	}
	defer os.RemoveAll(work)
	src := filepath.Join(verifDir, "conformance", "progs", "progs.go")
	rewrite.Prepare([]string{src})
	rewritten, _, err := rewrite.File(src)
	if err != nil {
		die(3, "rewrite: %v", err)
	}
	rw := filepath.Join(work, "progs_model.go")
	os.WriteFile(rw, rewritten, 0o644)
	ov, _ := json.Marshal(map[string]any{"Replace": map[string]string{src: rw}})
	ovf := filepath.Join(work, "overlay.json")
	os.WriteFile(ovf, ov, 0o644)
	build := func(out string, args ...string) {
		a := append([]string{"build", "-o", out}, args...)
		cmd := exec.Command("go", a...)
		cmd.Dir = verifDir
		cmd.Env = env()
		var buf bytes.Buffer
		cmd.Stdout, cmd.Stderr = &buf, &buf
		if err := cmd.Run(); err != nil {
			die(3, "go build failed: %v\n%s", err, buf.String())
		}
	}
	realBin, modelBin := filepath.Join(work, "real"), filepath.Join(work, "model")
	build(realBin, "./conformance/real")
	build(modelBin, "-overlay", ovf, "./conformance/model")
	run := func(bin, out string, extraEnv ...string) {
		cmd := exec.Command(bin, "-out", out)
		cmd.Env = append(os.Environ(), extraEnv...)
		var buf bytes.Buffer
		cmd.Stdout, cmd.Stderr = &buf, &buf
		if err := cmd.Run(); err != nil {
			die(3, "%s failed: %v\n%s", filepath.Base(bin), err, tail(buf.String(), 4000))
		}
	}
	t0 := time.Now()
	mf, rf := filepath.Join(work, "model.json"), filepath.Join(work, "real.json")
	run(modelBin, mf, "GOMAXPROCS=1")
	run(realBin, rf)
	type mout struct {
		Lazy       map[string]int `json:"lazy"`
		Eager      map[string]int `json:"eager"`
		Executions int64          `json:"executions"`
		EagerExecs int64          `json:"eager_executions"`
		Exhaustive bool           `json:"exhaustive"`
	}
	var model map[string]*mout
	var realSeen map[string]map[string]int
	b, _ := os.ReadFile(mf)
	if err := json.Unmarshal(b, &model); err != nil {
		die(3, "model output: %v", err)
	}
	b, _ = os.ReadFile(rf)
	if err := json.Unmarshal(b, &realSeen); err != nil {
		die(3, "real output: %v", err)
	}
	// expectations come from the program table itself (printed by the model binary's sibling)
	exp := map[string][]string{}
	cmd := exec.Command(modelBin, "-expect")
	eb, err := cmd.Output()
	if err != nil || json.Unmarshal(eb, &exp) != nil {
		die(3, "cannot read expectations: %v", err)
	}
	names := make([]string, 0, len(model))
	for k := range model {
		names = append(names, k)
	}
	sort.Strings(names)
	type row struct {
		Program      string         `json:"program"`
		Expect       []string       `json:"expected_outcomes"`
		Model        []string       `json:"model_outcomes"`
		ModelEager   []string       `json:"model_outcomes_eager_clock,omitempty"`
		Real         map[string]int `json:"real_outcomes"`
		Executions   int64          `json:"model_executions"`
		Exhaustive   bool           `json:"model_exhaustive"`
		RealCoverage string         `json:"real_runs_covered_model_outcomes"`
		OK           bool           `json:"ok"`
		Why          string         `json:"mismatch,omitempty"`
	}
	var rows []row
	bad := 0
	var totalExec int64
	for _, n := range names {
		m := model[n]
		r := row{Program: n, Expect: exp[n], Model: keysOf(m.Lazy), ModelEager: keysOf(m.Eager), Real: realSeen[n],
			Executions: m.Executions + m.EagerExecs, Exhaustive: m.Exhaustive, OK: true}
		totalExec += r.Executions
		if !m.Exhaustive {
			r.OK, r.Why = false, "model exploration did not complete"
		}
		if !sameSet(r.Model, r.Expect) {
			r.OK, r.Why = false, fmt.Sprintf("model outcomes %v differ from the outcomes the Go semantics allow %v", r.Model, r.Expect)
		}
		sup := m.Lazy
		if m.Eager != nil {
			sup = m.Eager
			for k := range m.Lazy {
				if _, ok := m.Eager[k]; !ok {
					r.OK, r.Why = false, "eager-clock outcomes do not contain lazy-clock outcome "+k
				}
			}
		}
		cov := 0
		for k := range r.Real {
			if _, ok := sup[k]; !ok {
				r.OK, r.Why = false, fmt.Sprintf("the real runtime produced outcome %q, which the model does not admit", k)
			}
		}
		for k := range m.Lazy {
			if r.Real[k] > 0 {
				cov++
			}
		}
		r.RealCoverage = fmt.Sprintf("%d/%d", cov, len(m.Lazy))
		if !r.OK {
			bad++
		}
		rows = append(rows, r)
		status := "ok"
		if !r.OK {
			status = "MISMATCH: " + r.Why
		}
		fmt.Printf("%-42s model=%v real=%v execs=%d %s\n", n, r.Model, keysOf(r.Real), r.Executions, status)
	}
	res := map[string]any{"programs": rows, "model_executions": totalExec, "mismatches": bad, "wall_s": time.Since(t0).Seconds(),
		"generated_at": time.Now().UTC().Format(time.RFC3339)}
	jb, _ := json.MarshalIndent(res, "", " ")
	os.WriteFile(filepath.Join(verifDir, "conformance", "RESULT.json"), jb, 0o644)
	fmt.Printf("conformance: programs=%d model_executions=%d mismatches=%d wall=%.1fs\n", len(rows), totalExec, bad, time.Since(t0).Seconds())
	if bad > 0 {
		os.RemoveAll(work)
		os.Exit(1)
	}
}

func keysOf(m map[string]int) []string {
	if m == nil {
		return nil
	}
	out := make([]string, 0, len(m))
	for k := range m {
		out = append(out, k)
	}
	sort.Strings(out)
	return out
}

func sameSet(a, b []string) bool {
	if len(a) != len(b) {
		return false
	}
	x := append([]string{}, a...)
	y := append([]string{}, b...)
	sort.Strings(x)
	sort.Strings(y)
	for i := range x {
		if x[i] != y[i] {
			return false
		}
	}
	return true
}
