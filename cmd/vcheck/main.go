// Command vcheck is the driver behind every MANIFEST command:
//
//	vcheck <ID> [--tier quick|thorough]   rewrite /repo -> build harness through the overlay -> run shards -> evidence
//	vcheck replay <path>                  re-execute one recorded violation and print its trace
//
// Exit codes: 0 property held on everything explored (KNOWN-FINDING lines possible); 1 at least one
// VIOLATION line; 2 INCONCLUSIVE (the edited tree does not build through the overlay); 3 internal error.
package main

import (
	"bufio"
	"bytes"
	"crypto/sha1"
	"encoding/json"
	"fmt"
	"os"
	"os/exec"
	"path/filepath"
	"runtime"
	"sort"
	"strconv"
	"strings"
	"sync"
	"time"

	"verif/rewrite"
)

// verifDir is the checkout this binary belongs to (<verifDir>/bin/vcheck): /verif normally, a
// snapshot directory under `vp run`.
var verifDir = func() string {
	if d := os.Getenv("VERIF_DIR"); d != "" {
		return d
	}
	if exe, err := os.Executable(); err == nil {
		if r, err := filepath.EvalSymlinks(exe); err == nil {
			d := filepath.Dir(filepath.Dir(r))
			if _, err := os.Stat(filepath.Join(d, "harness")); err == nil {
				return d
			}
		}
	}
	return "/verif"
}()

type failure struct {
	Sig string `json:"sig"`
	Msg string `json:"msg"`
}

type violation struct {
	Property string          `json:"property"`
	Scenario string          `json:"scenario"`
	Params   string          `json:"params"`
	Choices  []int           `json:"choices"`
	Failures []failure       `json:"failures"`
	Trace    json.RawMessage `json:"trace,omitempty"`
	Obs      []string        `json:"observations,omitempty"`
	Notes    []string        `json:"notes,omitempty"`
	Stuck    []string        `json:"stuck,omitempty"`
	Panic    string          `json:"panic,omitempty"`
}

type modeT struct {
	Scenario     string         `json:"scenario"`
	Params       string         `json:"params"`
	Executions   int64          `json:"executions"`
	Steps        int64          `json:"steps"`
	Outcomes     int            `json:"distinct_outcomes"`
	Nontrivial   int64          `json:"nontrivial_executions"`
	NontrivOut   int            `json:"distinct_nontrivial_outcomes"`
	MaxPoints    int            `json:"max_choice_points"`
	Capped       int64          `json:"capped_executions"`
	Stuck        int64          `json:"stuck_executions"`
	Exhaustive   bool           `json:"exhaustive_within_bounds"`
	PreemptBound int            `json:"preemption_bound"`
	DevBound     int            `json:"deviation_bound"`
	SigCounts    map[string]int `json:"violation_signatures,omitempty"`
	WallS        float64        `json:"wall_s"`
}

type modeS struct {
	Model       string         `json:"model"`
	Params      string         `json:"params"`
	States      int            `json:"states"`
	Transitions int64          `json:"transitions"`
	Nontrivial  int64          `json:"nontrivial_transitions"`
	Depth       int            `json:"depth_completed"`
	MaxDepth    int            `json:"max_depth"`
	Fixpoint    bool           `json:"fixpoint"`
	Exhaustive  bool           `json:"exhaustive_within_bounds"`
	SigCounts   map[string]int `json:"violation_signatures,omitempty"`
	WallS       float64        `json:"wall_s"`
}

type shardOut struct {
	Property   string      `json:"property"`
	Tier       string      `json:"tier"`
	Shard      int         `json:"shard"`
	ModeT      []modeT     `json:"mode_t"`
	ModeS      []modeS     `json:"mode_s"`
	Violations []violation `json:"violations"`
	Samples    []any       `json:"samples"`
	Notes      []string    `json:"notes"`
	TimedOut   bool        `json:"timed_out"`
	WallS      float64     `json:"wall_s"`
}

func env() []string {
	e := os.Environ()
	var out []string
	for _, kv := range e {
		if strings.HasPrefix(kv, "GO_CONCURRENCY_LIMIT_") || strings.HasPrefix(kv, "GOFLAGS=") ||
			strings.HasPrefix(kv, "GOPROXY=") || strings.HasPrefix(kv, "GOSUMDB=") || strings.HasPrefix(kv, "GOTOOLCHAIN=") ||
			strings.HasPrefix(kv, "GORACE=") {
			continue
		}
		out = append(out, kv)
	}
	return append(out, "GOFLAGS=-mod=mod", "GOPROXY=off", "GOSUMDB=off", "GOTOOLCHAIN=local")
}

func repoDir() string {
	if r := os.Getenv("VERIF_REPO"); r != "" {
		return r
	}
	return "/repo"
}

func die(code int, format string, a ...any) {
	fmt.Fprintf(os.Stderr, format+"\n", a...)
	os.Exit(code)
}

// buildHarness rewrites the repository and builds the harness binary; returns its path.
func buildHarness(work string, plain, race bool) (string, error) {
	repo := repoDir()
	if err := os.MkdirAll(work, 0o755); err != nil {
		return "", err
	}
	// module file with the replace pointing at the tree under test
	gm, err := os.ReadFile(filepath.Join(verifDir, "go.mod"))
	if err != nil {
		return "", err
	}
	gms := strings.Replace(string(gm), "=> /repo", "=> "+repo, 1)
	if err := os.WriteFile(filepath.Join(work, "go.mod"), []byte(gms), 0o644); err != nil {
		return "", err
	}
	gs, _ := os.ReadFile(filepath.Join(verifDir, "go.sum"))
	os.WriteFile(filepath.Join(work, "go.sum"), gs, 0o644)
	bin := filepath.Join(work, "vharness")
	args := []string{"build", "-modfile", filepath.Join(work, "go.mod"), "-o", bin}
	pkg := "./harness"
	if plain {
		pkg = "./harness_plain"
	} else {
		res, err := rewrite.Run(repo, work, nil)
		if err != nil {
			return "", fmt.Errorf("rewrite: %w", err)
		}
		args = append(args, "-overlay", res.Overlay)
	}
	if race {
		args = append(args, "-race")
	}
	args = append(args, pkg)
	cmd := exec.Command("go", args...)
	cmd.Dir = verifDir
	cmd.Env = env()
	var buf bytes.Buffer
	cmd.Stdout, cmd.Stderr = &buf, &buf
	if err := cmd.Run(); err != nil {
		return "", fmt.Errorf("go build failed: %v\n%s", err, buf.String())
	}
	return bin, nil
}

type knownFinding struct {
	open bool
	prop string
	sig  string
	text string
}

func loadKnown() []knownFinding {
	f, err := os.Open(filepath.Join(verifDir, "KNOWN_FINDINGS.txt"))
	if err != nil {
		return nil
	}
	defer f.Close()
	var out []knownFinding
	sc := bufio.NewScanner(f)
	for sc.Scan() {
		line := strings.TrimSpace(sc.Text())
		if line == "" || strings.HasPrefix(line, "#") {
			continue
		}
		var k knownFinding
		switch {
		case strings.HasPrefix(line, "open:"):
			k.open = true
			line = strings.TrimSpace(line[5:])
		case strings.HasPrefix(line, "fixed:"):
			line = strings.TrimSpace(line[6:])
		default:
			continue
		}
		fs := strings.Fields(line)
		rest := []string{}
		for _, w := range fs {
			switch {
			case strings.HasPrefix(w, "property="):
				k.prop = w[9:]
			case strings.HasPrefix(w, "signature="):
				k.sig = w[10:]
			default:
				rest = append(rest, w)
			}
		}
		k.text = strings.Join(rest, " ")
		out = append(out, k)
	}
	return out
}

func main() {
	if len(os.Args) < 2 {
		die(3, "usage: vcheck <ID> [--tier quick|thorough] | vcheck replay <path>")
	}
	if os.Args[1] == "replay" {
		if len(os.Args) < 3 {
			die(3, "usage: vcheck replay <path>")
		}
		replay(os.Args[2])
		return
	}
	if os.Args[1] == "warm" {
		warm()
		return
	}
	if os.Args[1] == "conformance" {
		conformance()
		return
	}
	if os.Args[1] == "build" { // development aid: vcheck build <dir> [plain|race]
		variant := ""
		if len(os.Args) > 3 {
			variant = os.Args[3]
		}
		bin, err := buildHarness(os.Args[2], variant == "plain", variant == "race")
		if err != nil {
			die(2, "%v", err)
		}
		fmt.Println(bin)
		return
	}
	id := os.Args[1]
	tier := os.Getenv("VERIF_TIER")
	if tier == "" {
		tier = "quick"
	}
	budget := time.Duration(0)
	for i := 2; i < len(os.Args); i++ {
		switch os.Args[i] {
		case "--tier":
			i++
			tier = os.Args[i]
		case "--budget":
			i++
			d, err := time.ParseDuration(os.Args[i])
			if err != nil {
				die(3, "bad budget")
			}
			budget = d
		}
	}
	if tier != "quick" && tier != "thorough" {
		die(3, "bad tier %q", tier)
	}
	seed := 0
	if s := os.Getenv("VERIF_SEED"); s != "" {
		seed, _ = strconv.Atoi(s)
	}
	if budget == 0 {
		if tier == "quick" {
			budget = 150 * time.Second
		} else {
			budget = 25 * time.Minute
		}
	}
	start := time.Now()
	work := filepath.Join(verifDir, ".work", fmt.Sprintf("%s-%d", id, os.Getpid()))
	defer os.RemoveAll(work)
	plain := id == "C14"
	race := id == "C17"
	bin, err := buildHarness(work, plain, race)
	if err != nil {
		fmt.Printf("INCONCLUSIVE property=%s build failed through the overlay: %v\n", id, err)
		os.RemoveAll(work)
		os.Exit(2)
	}
	buildS := time.Since(start).Seconds()
	nsh := runtime.NumCPU()
	if nsh > 16 {
		nsh = 16
	}
	if v := os.Getenv("VERIF_SHARDS"); v != "" {
		nsh, _ = strconv.Atoi(v)
	}
	outs := make([]shardOut, nsh)
	errs := make([]error, nsh)
	logs := make([]string, nsh)
	var wg sync.WaitGroup
	for i := 0; i < nsh; i++ {
		wg.Add(1)
		go func(i int) {
			defer wg.Done()
			of := filepath.Join(work, fmt.Sprintf("out-%d.json", i))
			cmd := exec.Command(bin, "-prop", id, "-tier", tier, "-shard", strconv.Itoa(i), "-nshard", strconv.Itoa(nsh),
				"-out", of, "-budget", budget.String())
			cmd.Dir = work
			cmd.Env = append(env(), "GOMAXPROCS=1", "GOGC=200", "VERIF_WORK="+work, fmt.Sprintf("VERIF_SEED=%d", seed))
			if race {
				rl := filepath.Join(work, fmt.Sprintf("racelog-%d", i))
				cmd.Env = append(cmd.Env, "VERIF_RACELOG="+rl, "GORACE=log_path="+rl+" halt_on_error=0 exitcode=0 atexit_sleep_ms=0 history_size=2")
			}
			var buf bytes.Buffer
			cmd.Stdout, cmd.Stderr = &buf, &buf
			err := cmd.Run()
			logs[i] = buf.String()
			if err != nil {
				errs[i] = fmt.Errorf("shard %d: %v\n%s", i, err, tail(buf.String(), 4000))
				return
			}
			b, err := os.ReadFile(of)
			if err != nil {
				errs[i] = err
				return
			}
			if err := json.Unmarshal(b, &outs[i]); err != nil {
				errs[i] = err
			}
		}(i)
	}
	wg.Wait()
	for _, e := range errs {
		if e != nil {
			fmt.Fprintf(os.Stderr, "INTERNAL property=%s %v\n", id, e)
			os.RemoveAll(work)
			os.Exit(3)
		}
	}
	code := report(id, tier, seed, outs, buildS, time.Since(start).Seconds())
	os.RemoveAll(work)
	os.Exit(code)
}

// warm builds every harness variant once so that later builds hit the cache.
func warm() {
	for _, v := range []struct {
		name        string
		plain, race bool
	}{{"overlay", false, false}, {"plain", true, false}, {"race", false, true}} {
		if v.plain {
			if _, err := os.Stat(filepath.Join(verifDir, "harness_plain")); err != nil {
				continue
			}
		}
		work := filepath.Join(verifDir, ".work", fmt.Sprintf("warm-%s-%d", v.name, os.Getpid()))
		t0 := time.Now()
		_, err := buildHarness(work, v.plain, v.race)
		os.RemoveAll(work)
		if err != nil {
			fmt.Printf("warm %s: %v\n", v.name, err)
			continue
		}
		fmt.Printf("warm %s: built in %.1fs\n", v.name, time.Since(t0).Seconds())
	}
}

func tail(s string, n int) string {
	if len(s) > n {
		return s[len(s)-n:]
	}
	return s
}

func report(id, tier string, seed int, outs []shardOut, buildS, wall float64) int {
	known := loadKnown()
	var (
		execs, steps, nontriv, transitions, ntTrans int64
		states, outcomes, ntOutcomes                int
		exhaustive                                  = true
		timedOut                                    bool
		capped                                      int64
		scen                                        []map[string]any
		samples                                     []any
		viols                                       []violation
		notes                                       []string
	)
	for _, o := range outs {
		timedOut = timedOut || o.TimedOut
		for _, m := range o.ModeT {
			execs += m.Executions
			steps += m.Steps
			nontriv += m.Nontrivial
			outcomes += m.Outcomes
			ntOutcomes += m.NontrivOut
			capped += m.Capped
			exhaustive = exhaustive && m.Exhaustive
			scen = append(scen, map[string]any{"mode": "T", "scenario": m.Scenario, "params": m.Params, "executions": m.Executions,
				"steps": m.Steps, "distinct_outcomes": m.Outcomes, "preemption_bound": m.PreemptBound, "deviation_bound": m.DevBound,
				"exhaustive_within_bounds": m.Exhaustive, "capped": m.Capped, "stuck": m.Stuck, "max_choice_points": m.MaxPoints,
				"violation_signatures": m.SigCounts, "wall_s": m.WallS})
		}
		for _, m := range o.ModeS {
			states += m.States
			transitions += m.Transitions
			ntTrans += m.Nontrivial
			exhaustive = exhaustive && m.Exhaustive
			scen = append(scen, map[string]any{"mode": "S", "model": m.Model, "params": m.Params, "states": m.States,
				"transitions": m.Transitions, "depth_completed": m.Depth, "max_depth": m.MaxDepth, "fixpoint": m.Fixpoint,
				"exhaustive_within_bounds": m.Exhaustive, "violation_signatures": m.SigCounts, "wall_s": m.WallS})
		}
		for _, s := range o.Samples {
			if len(samples) < 3 {
				samples = append(samples, s)
			}
		}
		viols = append(viols, o.Violations...)
		notes = append(notes, o.Notes...)
	}
	sort.Slice(scen, func(i, j int) bool {
		return fmt.Sprint(scen[i]["scenario"], scen[i]["model"], scen[i]["params"]) < fmt.Sprint(scen[j]["scenario"], scen[j]["model"], scen[j]["params"])
	})
	if timedOut {
		exhaustive = false
	}
	// classify violations
	os.MkdirAll(filepath.Join(verifDir, "replays"), 0o755)
	knownHit := map[string]bool{}
	var knownLines, violLines []string
	nviol := 0
	sort.Slice(viols, func(i, j int) bool { return viols[i].Scenario+viols[i].Params < viols[j].Scenario+viols[j].Params })
	seenSig := map[string]bool{}
	for _, v := range viols {
		unlisted := false
		for _, f := range v.Failures {
			matched := false
			for _, k := range known {
				if k.open && k.prop == id && sigMatch(k.sig, f.Sig) {
					matched = true
					if !knownHit[k.sig] {
						knownHit[k.sig] = true
						knownLines = append(knownLines, fmt.Sprintf("KNOWN-FINDING: property=%s signature=%s %s", id, k.sig, k.text))
					}
				}
			}
			if !matched {
				unlisted = true
			}
		}
		if unlisted {
			key := v.Scenario + "|" + sigs(v.Failures)
			if seenSig[key] {
				continue
			}
			seenSig[key] = true
			nviol++
			v.Property = id
			b, _ := json.MarshalIndent(v, "", " ")
			h := sha1.Sum(b)
			name := fmt.Sprintf("%s-%s-%x.json", id, sanitize(v.Scenario), h[:4])
			path := filepath.Join(verifDir, "replays", name)
			os.WriteFile(path, b, 0o644)
			msg := ""
			for _, f := range v.Failures {
				msg += " [" + f.Sig + "] " + f.Msg
			}
			if len(msg) > 600 {
				msg = msg[:600] + "…"
			}
			violLines = append(violLines, fmt.Sprintf("VIOLATION property=%s replay=%s scenario=%s%s", id, path, v.Scenario, msg))
		}
	}
	// evidence
	totalStates := states + outcomes
	totalTrans := transitions + steps
	if len(samples) == 0 {
		samples = append(samples, "no sample recorded")
	}
	cov := map[string]any{
		"states":                        totalStates,
		"transitions":                   totalTrans,
		"traces_validated_against_impl": execs + transitions,
		"samples":                       samples,
		"evaluations":                   execs + transitions,
		"distinct_nontrivial":           ntOutcomes + states,
		"rule": "Mode T: every execution of each closed scenario is enumerated by depth-first search over its choice list " +
			"(thread choices at every lock/atomic/channel/cond/timer operation of the real code, environment answers, select arms) within " +
			"the preemption and deviation bounds listed per scenario; an execution is non-trivial when operations of different threads " +
			"overlapped, and distinct when its outcome record (results per caller + end state) differs. Mode S: breadth-first search over " +
			"operation sequences on the real objects with fingerprint pruning; states = distinct fingerprints of all data fields; every " +
			"transition (also into known states) is checked.",
		"exhaustive":             exhaustive,
		"executions":             execs,
		"schedule_points":        steps,
		"mode_s_states":          states,
		"mode_s_transitions":     transitions,
		"distinct_outcomes":      outcomes,
		"capped_executions":      capped,
		"timed_out":              timedOut,
		"scenarios":              scen,
		"known_findings_matched": keys(knownHit),
		"build_s":                buildS,
		"shards":                 len(outs),
		"notes":                  notes,
		"repo":                   repoDir(),
	}
	ev := map[string]any{
		"property_id": id,
		"tier":        tier,
		"seed":        seed,
		"level":       "model_checking",
		"coverage":    cov,
		"assumptions": assumptions(id),
		"wall_s":      wall,
		"violations":  nviol,
	}
	if totalStates < 1 || totalTrans < 1 {
		// nothing ran: do not pretend
		fmt.Fprintf(os.Stderr, "INTERNAL property=%s: nothing was explored\n", id)
		return 3
	}
	// evidence/ describes /repo itself; a run against another tree (VERIF_REPO, used to try the checks
	// on seeded changes) writes its evidence under .work/ instead
	evDir := filepath.Join(verifDir, "evidence")
	if repoDir() != "/repo" {
		evDir = filepath.Join(verifDir, ".work", "evidence-other-tree")
	}
	os.MkdirAll(evDir, 0o755)
	b, _ := json.MarshalIndent(ev, "", " ")
	if err := os.WriteFile(filepath.Join(evDir, id+".json"), b, 0o644); err != nil {
		fmt.Fprintln(os.Stderr, err)
		return 3
	}
	for _, l := range knownLines {
		fmt.Println(l)
	}
	for _, l := range violLines {
		fmt.Println(l)
	}
	fmt.Printf("property=%s tier=%s executions=%d schedule_points=%d distinct_outcomes=%d modeS_states=%d modeS_transitions=%d exhaustive=%v violations=%d known=%d wall=%.1fs\n",
		id, tier, execs, steps, outcomes, states, transitions, exhaustive, nviol, len(knownHit), wall)
	if nviol > 0 {
		return 1
	}
	return 0
}

func sigMatch(pattern, sig string) bool {
	if strings.HasSuffix(pattern, "*") {
		return strings.HasPrefix(sig, pattern[:len(pattern)-1])
	}
	return pattern == sig
}

func sigs(fs []failure) string {
	var s []string
	for _, f := range fs {
		s = append(s, f.Sig)
	}
	sort.Strings(s)
	return strings.Join(s, "+")
}

func keys(m map[string]bool) []string {
	out := []string{}
	for k := range m {
		out = append(out, k)
	}
	sort.Strings(out)
	return out
}

func sanitize(s string) string {
	r := strings.NewReplacer("/", "_", " ", "_", "=", "-", "[", "", "]", "", ",", "-")
	s = r.Replace(s)
	if len(s) > 60 {
		s = s[:60]
	}
	return s
}

func assumptions(id string) []string {
	a := []string{
		"the virtual runtime's shims reproduce the semantics of sync, sync/atomic, channels/select, time and context (trusted, DESIGN 11)",
		"interleavings are sequentially consistent at synchronisation-operation granularity; unsynchronised accesses are the subject of C17",
		"results hold for the listed scenarios, alphabets and bounds only",
	}
	return a
}

func replay(path string) {
	b, err := os.ReadFile(path)
	if err != nil {
		die(3, "%v", err)
	}
	var v violation
	if err := json.Unmarshal(b, &v); err != nil {
		die(3, "%v", err)
	}
	work := filepath.Join(verifDir, ".work", fmt.Sprintf("replay-%d", os.Getpid()))
	defer os.RemoveAll(work)
	bin, err := buildHarness(work, v.Property == "C14", v.Property == "C17")
	if err != nil {
		fmt.Printf("INCONCLUSIVE build failed: %v\n", err)
		os.RemoveAll(work)
		os.Exit(2)
	}
	abs, _ := filepath.Abs(path)
	cmd := exec.Command(bin, "-replay", abs)
	cmd.Dir = work
	cmd.Env = append(env(), "VERIF_WORK="+work)
	cmd.Stdout, cmd.Stderr = os.Stdout, os.Stderr
	err = cmd.Run()
	os.RemoveAll(work)
	if ee, ok := err.(*exec.ExitError); ok {
		os.Exit(ee.ExitCode())
	}
	if err != nil {
		die(3, "%v", err)
	}
}
