#!/bin/sh
# Builds the driver from files on disk and warms the build cache for the harness (offline).
set -e
cd "$(dirname "$0")"
export GOFLAGS=-mod=mod GOPROXY=off GOSUMDB=off GOTOOLCHAIN=local
mkdir -p bin evidence replays .work
go build -o bin/vcheck ./cmd/vcheck
# warm the cache: one overlay build of the harness (the check commands rebuild from /repo's tree every time)
./bin/vcheck warm || true
