#!/bin/bash
# usage: seedregress.sh [name...]   (default: every directory under /verif/seeded)
# Re-applies each stored seeded change to a scratch worktree of /repo HEAD and runs the property's
# quick check against it: every one must still be reported (exit 1 with a VIOLATION line).
# (runs against another tree write their evidence under .work/, not evidence/)

export GOFLAGS=-mod=mod GOPROXY=off GOSUMDB=off GOTOOLCHAIN=local
V=$(cd "$(dirname "$0")/.." && pwd)
cd $V
names="$@"; [ -z "$names" ] && names=$(ls seeded)
miss=0
for n in $names; do
  prop=${n%%-*}
  W=/tmp/seedreg/$n
  mkdir -p /tmp/seedreg
  git -C /repo worktree remove --force $W >/dev/null 2>&1
  git -C /repo worktree add --detach $W >/dev/null 2>&1 || { echo "$n: cannot create worktree"; continue; }
  if ! git -C $W apply --3way $V/seeded/$n/patch.diff >/dev/null 2>&1; then
    echo "$n: patch no longer applies to /repo HEAD (skipped)"
    git -C /repo worktree remove --force $W >/dev/null 2>&1
    continue
  fi
  o=$(VERIF_REPO=$W timeout 1500 ./bin/vcheck $prop --tier quick 2>&1); code=$?
  nv=$(echo "$o" | grep -c '^VIOLATION')
  status=caught
  if [ $code -ne 1 ] || [ $nv -eq 0 ]; then status="MISSED(exit=$code)"; miss=$((miss+1)); fi
  echo "$n: $status violations=$nv $(echo "$o" | grep '^VIOLATION' | head -1 | sed -E 's/.*(\[[^]]*\]).*/\1/' | cut -c1-90)"
  git -C /repo worktree remove --force $W >/dev/null 2>&1
done
git -C /repo worktree prune

rm -rf /tmp/seedreg
echo "seedregress: missed=$miss"
[ $miss -eq 0 ]
