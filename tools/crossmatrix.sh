#!/bin/bash
# usage: crossmatrix.sh <out-file> [seed-name...]   (default: every Cnn-3 under /verif/seeded)
# Applies each stored seeded change to a scratch worktree of /repo HEAD and runs ALL twenty quick
# checks against it. One line per seed: the properties whose check raised an alarm. A check other
# than the seed's own that fires must be explained by that property really being broken too.
export GOFLAGS=-mod=mod GOPROXY=off GOSUMDB=off GOTOOLCHAIN=local
V=$(cd "$(dirname "$0")/.." && pwd)
cd $V
out=$1; shift
# CHECKS="C01 C13" restricts the checks that are run; CROSSDIR separates parallel invocations
CHECKS=${CHECKS:-$(for i in $(seq -w 1 20); do echo C$i; done)}
CROSSDIR=${CROSSDIR:-/tmp/crossm}
names="$@"; [ -z "$names" ] && names=$(ls seeded | grep -- '-3$')
: > $out
for n in $names; do
  W=$CROSSDIR/$n
  mkdir -p $CROSSDIR
  git -C /repo worktree remove --force $W >/dev/null 2>&1
  git -C /repo worktree add --detach $W >/dev/null 2>&1 || { echo "$n: cannot create worktree" >> $out; continue; }
  if ! git -C $W apply --3way $V/seeded/$n/patch.diff >/dev/null 2>&1; then
    echo "$n: patch does not apply" >> $out
    git -C /repo worktree remove --force $W >/dev/null 2>&1
    continue
  fi
  line="$n:"
  for ci in $CHECKS; do
    i=${ci#C}
    o=$(VERIF_REPO=$W timeout 900 ./bin/vcheck C$i --tier quick 2>&1); code=$?
    if [ $code -ne 0 ]; then
      sig=$(echo "$o" | grep '^VIOLATION' | head -1 | sed -E 's/.*scenario=([^ ]+) (\[[^]]*\]).*/\1\2/' | cut -c1-80)
      line="$line C$i(exit=$code $sig)"
    fi
  done
  echo "$line" >> $out
  git -C /repo worktree remove --force $W >/dev/null 2>&1
done
git -C /repo worktree prune
rm -rf $CROSSDIR
echo done >> $out
