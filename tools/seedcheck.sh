#!/bin/bash
# usage: seedcheck.sh <ID> [extra check ids...]
# Confirms a seeded change (suite passes, demo fails with / passes without) in a scratch worktree and
# runs the property's quick check against it. Prints a one-line summary; details in /tmp/seedchk/<ID>.log
id=$1; shift
export GOFLAGS=-mod=mod GOPROXY=off GOSUMDB=off GOTOOLCHAIN=local
SEEDROOT=${SEEDROOT:-/tmp/seed}
OUT=$SEEDROOT/$id.out
W=/tmp/seedchk/$id
LOG=/tmp/seedchk/$id.log
mkdir -p /tmp/seedchk; rm -f $LOG
git -C /repo worktree remove --force $W >/dev/null 2>&1
git -C /repo worktree add --detach $W >/dev/null 2>&1 || { echo "$id: cannot create worktree"; exit 1; }
cd $W
if ! git apply $OUT/patch.diff >>$LOG 2>&1; then echo "$id: PATCH DOES NOT APPLY"; git -C /repo worktree remove --force $W; exit 1; fi
suite=FAIL; timeout 900 go test -vet=off -count=1 ./... >>$LOG 2>&1 && suite=pass
# demo location: same relative path as in the agent's worktree
demo=$(cd $SEEDROOT/$id && git status --short | grep '??' | awk '{print $2}' | grep '_test.go$' | head -1)
with=none; without=none
if [ -n "$demo" ]; then
  cp $SEEDROOT/$id/$demo $W/$demo
  pkg=./$(dirname $demo)
  race=""; grep -q '"-race"\|go test -race\| -race ' $OUT/meta.json && race="-race"
  if timeout 600 go test $race -vet=off -count=1 -run 'ZZSeedDemo|ZZSeed|Seed' $pkg >>$LOG 2>&1; then with=PASSES; else with=fails; fi
  git apply -R $OUT/patch.diff
  if timeout 600 go test $race -vet=off -count=1 -run 'ZZSeedDemo|ZZSeed|Seed' $pkg >>$LOG 2>&1; then without=passes; else without=FAILS; fi
  git apply $OUT/patch.diff
  rm -f $W/$demo
fi
res=""
for chk in $id "$@"; do
  cd /verif
  o=$(VERIF_REPO=$W timeout 1200 ./bin/vcheck $chk 2>&1); code=$?
  echo "== vcheck $chk exit=$code" >>$LOG; echo "$o" | cut -c1-600 >>$LOG
  n=$(echo "$o" | grep -c '^VIOLATION')
  res="$res $chk:exit=$code,viol=$n"
done
git -C /repo worktree remove --force $W >/dev/null 2>&1
echo "$id: suite=$suite demo_with_change=$with demo_without=$without checks:$res"
