#!/usr/bin/env python3
"""seedstore.py <ID> <summary-line from seedcheck>: copies a confirmed seeded change into /verif/seeded/<ID>/."""
import json, os, shutil, sys, subprocess, glob
sid, line = sys.argv[1], sys.argv[2]
name = sys.argv[3] if len(sys.argv) > 3 else sid
root = os.environ.get('SEEDROOT', '/tmp/seed')
src = '%s/%s.out' % (root, sid)
dst = '/verif/seeded/%s' % name
os.makedirs(dst, exist_ok=True)
shutil.copy(src + '/patch.diff', dst + '/patch.diff')
demo = subprocess.run("cd " + root + "/%s && git status --short | grep '??' | awk '{print $2}' | grep '_test.go$' | head -1" % sid, shell=True, capture_output=True, text=True).stdout.strip()
if demo:
    shutil.copy('%s/%s/%s' % (root, sid, demo), dst + '/' + os.path.basename(demo) + '.txt')
elif os.path.exists(src + '/demo_test.go'):
    shutil.copy(src + '/demo_test.go', dst + '/demo_test.go.txt')
meta = {}
try:
    meta = json.load(open(src + '/meta.json'))
except Exception as e:
    meta = {'property': sid, 'summary': 'meta.json missing: %s' % e}
meta['demo_path_in_repo'] = demo
meta['confirmed_by'] = 'tools/seedcheck.sh %s: fresh scratch worktree of /repo HEAD; patch applied; `go test -vet=off -count=1 ./...`; demonstration run with and without the patch; then `VERIF_REPO=<worktree> ./bin/vcheck <id>` (quick tier); worktree removed' % sid
meta['confirmation'] = line
log = '/tmp/seedchk/%s.log' % sid
if os.path.exists(log):
    v = [l.strip()[:400] for l in open(log) if l.startswith('VIOLATION')]
    meta['check_output'] = v[:4]
json.dump(meta, open(dst + '/meta.json', 'w'), indent=1)
print('stored', dst)
