package repro

import (
	"context"
	"errors"
	"runtime"
	"sync"
	"testing"
	"time"

	gometrics "github.com/rcrowley/go-metrics"
	ggrpc "google.golang.org/grpc"

	"github.com/platinummonkey/go-concurrency-limits/core"
	gcl "github.com/platinummonkey/go-concurrency-limits/grpc"
	"github.com/platinummonkey/go-concurrency-limits/limit"
	"github.com/platinummonkey/go-concurrency-limits/limiter"
	"github.com/platinummonkey/go-concurrency-limits/measurements"
	reg "github.com/platinummonkey/go-concurrency-limits/metric_registry/gometrics"
	"github.com/platinummonkey/go-concurrency-limits/strategy"
)

func newDefault(t *testing.T, n int) *limiter.DefaultLimiter {
	d, err := limiter.NewDefaultLimiter(limit.NewFixedLimit("x", n, nil), 1e9, 1e9, 1, 10,
		strategy.NewSimpleStrategy(n), nil, core.EmptyMetricRegistryInstance)
	if err != nil {
		t.Fatal(err)
	}
	return d
}

// (a) LIFO configured, which waiter is served first?
func TestQueueOrder(t *testing.T) {
	d := newDefault(t, 1)
	q := limiter.NewQueueBlockingLimiterFromConfig(d, limiter.QueueLimiterConfig{Ordering: limiter.OrderingLIFO, MaxBacklogTimeout: 5 * time.Second})
	h, _ := q.Acquire(context.Background())
	var mu sync.Mutex
	var order []int
	var wg sync.WaitGroup
	for i := 1; i <= 3; i++ {
		wg.Add(1)
		go func(i int) {
			defer wg.Done()
			l, ok := q.Acquire(context.Background())
			if ok {
				mu.Lock()
				order = append(order, i)
				mu.Unlock()
				time.Sleep(20 * time.Millisecond)
				l.OnSuccess()
			}
		}(i)
		time.Sleep(50 * time.Millisecond) // arrival order 1,2,3
	}
	h.OnSuccess()
	wg.Wait()
	t.Logf("LIFO configured; grant order = %v (LIFO would be [3 2 1])", order)
}

// (b) lost wake-up: the release lands between the failed attempt and the cond wait.
type racingDelegate struct {
	inner  core.Limiter
	holder *core.Listener
	once   sync.Once
}

func (r *racingDelegate) Acquire(ctx context.Context) (core.Listener, bool) {
	l, ok := r.inner.Acquire(ctx)
	if !ok && r.holder != nil {
		r.once.Do(func() { (*r.holder).OnSuccess() }) // holder completes (and broadcasts) right here
	}
	return l, ok
}

func TestBlockingLostWakeup(t *testing.T) {
	d := newDefault(t, 1)
	var holder core.Listener
	rd := &racingDelegate{inner: d, holder: &holder}
	b := limiter.NewBlockingLimiter(rd, 0, nil)
	holder, _ = b.Acquire(context.Background()) // holder's listener broadcasts on b's cond
	ctx, cancel := context.WithTimeout(context.Background(), 500*time.Millisecond)
	defer cancel()
	start := time.Now()
	_, ok := b.Acquire(ctx)
	t.Logf("waiter ok=%v after %v; capacity was free the whole time (busy=%d)", ok, time.Since(start).Round(time.Millisecond), 0)
}

// queue: release between failed attempt and push -> waiter sits in backlog with capacity free until timeout
func TestQueueReleaseSawNoWaiter(t *testing.T) {
	d := newDefault(t, 1)
	var holder core.Listener
	rd := &racingDelegate{inner: d, holder: &holder}
	q := limiter.NewQueueBlockingLimiterFromConfig(rd, limiter.QueueLimiterConfig{MaxBacklogTimeout: 300 * time.Millisecond})
	holder, _ = q.Acquire(context.Background())
	start := time.Now()
	_, ok := q.Acquire(context.Background())
	t.Logf("queue waiter ok=%v after %v", ok, time.Since(start).Round(time.Millisecond))
}

// queue: hand-off attempted between push and select (ctx.Done() is called in that window when eviction is on)
type doneCtx struct {
	context.Context
	f    func()
	once sync.Once
}

func (c *doneCtx) Done() <-chan struct{} { c.once.Do(c.f); return c.Context.Done() }

func TestQueueHandoffDropped(t *testing.T) {
	d := newDefault(t, 1)
	gauge := map[string]core.MetricSupplier{}
	r := &recReg{g: gauge}
	q := limiter.NewQueueBlockingLimiterFromConfig(d, limiter.QueueLimiterConfig{MaxBacklogTimeout: 300 * time.Millisecond, BacklogEvictDoneCtx: true, MetricRegistry: r})
	holder, _ := q.Acquire(context.Background())
	var sizeAfter float64
	ctx := &doneCtx{Context: context.Background(), f: func() {
		holder.OnSuccess() // unblock: peek waiter, acquire for it, evict it, non-blocking send fails, OnIgnore
		sizeAfter, _ = gauge[core.MetricQueueSize]()
	}}
	start := time.Now()
	_, ok := q.Acquire(ctx)
	t.Logf("queue waiter ok=%v after %v; queue_size right after the dropped hand-off=%v while the waiter was still blocked; busy=%d",
		ok, time.Since(start).Round(time.Millisecond), sizeAfter, 0)
}

type recReg struct {
	core.EmptyMetricRegistry
	g map[string]core.MetricSupplier
}

func (r *recReg) RegisterGauge(id string, s core.MetricSupplier, tags ...string) { r.g[id] = s }

// (c) registry life cycle
func TestRegistryLifecycle(t *testing.T) {
	r, _ := reg.NewGoMetricsMetricRegistry(gometrics.NewRegistry(), "", "p", 10*time.Millisecond)
	var mu sync.Mutex
	polls := 0
	r.RegisterGauge("g", func() (float64, bool) { mu.Lock(); polls++; mu.Unlock(); return 1, true })
	before := runtime.NumGoroutine()
	r.Start()
	r.Start()
	time.Sleep(55 * time.Millisecond)
	mu.Lock()
	p1 := polls
	mu.Unlock()
	done := make(chan struct{})
	go func() { r.Stop(); close(done) }()
	select {
	case <-done:
	case <-time.After(time.Second):
		t.Log("Stop did not return within 1s")
	}
	time.Sleep(55 * time.Millisecond)
	mu.Lock()
	p2 := polls
	mu.Unlock()
	t.Logf("goroutines +%d after Start;Start; polls in 55ms=%d (one poller would give ~5); polls after Stop returned: +%d", runtime.NumGoroutine()-before, p1, p2-p1)
}

// (d) deadline limiter: remaining time <= 0 at the moment the wait is armed
type slowFail struct{ d time.Duration }

func (s slowFail) Acquire(ctx context.Context) (core.Listener, bool) { time.Sleep(s.d); return nil, false }

func TestDeadlineNonPositiveRemaining(t *testing.T) {
	dl := limiter.NewDeadlineLimiter(slowFail{30 * time.Millisecond}, time.Now().Add(10*time.Millisecond), nil)
	ctx, cancel := context.WithTimeout(context.Background(), 600*time.Millisecond)
	defer cancel()
	start := time.Now()
	_, ok := dl.Acquire(ctx)
	t.Logf("deadline was 10ms; Acquire returned ok=%v after %v (only the 600ms context got it out)", ok, time.Since(start).Round(time.Millisecond))
}

// (e) grpc SendMsg limiter
type cntLimiter struct{ n int }

func (c *cntLimiter) Acquire(ctx context.Context) (core.Listener, bool) { c.n++; return nopL{}, true }

type nopL struct{}

func (nopL) OnSuccess() {}
func (nopL) OnIgnore()  {}
func (nopL) OnDropped() {}

type fakeSS struct{ ggrpc.ServerStream }

func (fakeSS) Context() context.Context  { return context.Background() }
func (fakeSS) SendMsg(m interface{}) error { return nil }
func (fakeSS) RecvMsg(m interface{}) error { return errors.New("x") }

func TestGrpcSend(t *testing.T) {
	recv, send := &cntLimiter{}, &cntLimiter{}
	ic := gcl.StreamServerInterceptor(gcl.WithStreamRecvLimiter(recv), gcl.WithStreamSendLimiter(send))
	_ = ic(nil, fakeSS{}, &ggrpc.StreamServerInfo{FullMethod: "/m"}, func(srv interface{}, ss ggrpc.ServerStream) error {
		return ss.SendMsg(1)
	})
	t.Logf("after one SendMsg: recvLimiter acquires=%d sendLimiter acquires=%d", recv.n, send.n)
}

// TestMinimumUpdateLosesSample: a sample added while Update runs its operation. Before 6bf0160 Update
// read the value (0 = unset), released the lock, and then Add-ed the transformed value, so the
// sample 1 added in between was replaced by 0 again ("Get()=0"). Now Update holds the write lock
// across the operation: the Add waits and the minimum is 1.
func TestMinimumUpdateLosesSample(t *testing.T) {
	m := &measurements.MinimumMeasurement{}
	done := make(chan struct{})
	m.Update(func(v float64) float64 {
		go func() { m.Add(1); close(done) }()
		select {
		case <-done: // unfixed code: the Add gets in between the read and the write-back
		case <-time.After(200 * time.Millisecond): // fixed code: the Add waits for the lock
		}
		return v
	})
	<-done
	t.Logf("Add(1) racing Update(identity) on an empty MinimumMeasurement: Get()=%v (1 expected; 0 = sample lost)", m.Get())
}
