// Command vharness (plain variant) checks C14 against the unmodified repository: the gRPC
// interceptors need the real context package and the real grpc module, so this binary is built
// without the overlay. The space is finite and enumerated completely.
package main

import (
	"context"
	"encoding/json"
	"errors"
	"flag"
	"fmt"
	"os"
	"strings"
	"time"

	golangGrpc "google.golang.org/grpc"
	"google.golang.org/grpc/codes"
	"google.golang.org/grpc/status"

	"github.com/platinummonkey/go-concurrency-limits/core"
	gl "github.com/platinummonkey/go-concurrency-limits/grpc"
)

type failure struct {
	Sig string `json:"sig"`
	Msg string `json:"msg"`
}

type violation struct {
	Property string    `json:"property"`
	Scenario string    `json:"scenario"`
	Params   string    `json:"params"`
	Choices  []int     `json:"choices"`
	Failures []failure `json:"failures"`
	Notes    []string  `json:"notes,omitempty"`
}

type modeS struct {
	Model       string         `json:"model"`
	Params      string         `json:"params"`
	States      int            `json:"states"`
	Transitions int64          `json:"transitions"`
	Nontrivial  int64          `json:"nontrivial_transitions"`
	Depth       int            `json:"depth_completed"`
	MaxDepth    int            `json:"max_depth"`
	Fixpoint    bool           `json:"fixpoint"`
	Exhaustive  bool           `json:"exhaustive_within_bounds"`
	SigCounts   map[string]int `json:"violation_signatures,omitempty"`
	WallS       float64        `json:"wall_s"`
}

type output struct {
	Property   string      `json:"property"`
	Tier       string      `json:"tier"`
	Shard      int         `json:"shard"`
	ModeS      []modeS     `json:"mode_s"`
	Violations []violation `json:"violations"`
	Samples    []any       `json:"samples"`
	TimedOut   bool        `json:"timed_out"`
	WallS      float64     `json:"wall_s"`
}

// ---- doubles ----

type evlog struct{ ev []string }

func (l *evlog) add(format string, a ...any) { l.ev = append(l.ev, fmt.Sprintf(format, a...)) }

type recLimiter struct {
	name  string
	grant bool
	log   *evlog
}

type recListener struct {
	name string
	log  *evlog
}

func (r *recListener) OnSuccess() { r.log.add("%s.OnSuccess", r.name) }
func (r *recListener) OnIgnore()  { r.log.add("%s.OnIgnore", r.name) }
func (r *recListener) OnDropped() { r.log.add("%s.OnDropped", r.name) }

func (r *recLimiter) Acquire(ctx context.Context) (core.Listener, bool) {
	r.log.add("%s.Acquire", r.name)
	if !r.grant {
		return nil, false
	}
	return &recListener{r.name, r.log}, true
}
func (r *recLimiter) String() string { return "recLimiter(" + r.name + ")" }

var errCall = errors.New("call failed")

var kindNames = []string{"OnSuccess", "OnIgnore", "OnDropped"}

// results of the wrapped call: (resp, nil), (nil, err), (resp, err)
type callResult struct {
	resp any
	err  error
}

var callResults = []callResult{{"resp", nil}, {nil, errCall}, {"resp", errCall}}

type check struct {
	model  string
	fails  map[string]*violation
	counts map[string]int
	n      int64
	states map[string]bool
	sample []any
}

func (c *check) fail(sig string, choices []int, format string, a ...any) {
	c.counts[sig]++
	if _, ok := c.fails[sig]; !ok {
		c.fails[sig] = &violation{Property: "C14", Scenario: c.model, Choices: append([]int{}, choices...), Failures: []failure{{sig, fmt.Sprintf(format, a...)}}}
	}
}

// expectOne asserts that ev is exactly: limiter.Acquire, [call], limiter.<kind> for a grant; limiter.Acquire for a refusal.
func (c *check) expect(sigPrefix string, choices []int, ev []string, lim string, grant bool, wantKind string, what string) {
	c.n++
	c.states[strings.Join(ev, ",")] = true
	want := []string{lim + ".Acquire"}
	if grant {
		want = append(want, "call", lim+"."+wantKind)
	}
	got := strings.Join(ev, " ")
	if got == strings.Join(want, " ") {
		return
	}
	// classify
	switch {
	case len(ev) == 0 || !strings.HasSuffix(ev[0], ".Acquire"):
		c.fail(sigPrefix+"/call-before-acquire", choices, "%s: events %v, expected %v", what, ev, want)
	case ev[0] != lim+".Acquire":
		c.fail(sigPrefix+"/wrong-limiter", choices, "%s: consulted %s, expected the %s limiter; events %v", what, ev[0], lim, ev)
	case !grant:
		c.fail(sigPrefix+"/refused-but-touched", choices, "%s: limiter refused yet events are %v", what, ev)
	default:
		c.fail(sigPrefix+"/token-completion", choices, "%s: events %v, expected %v", what, ev, want)
	}
}

// ---- unary ----

func unary(c *check, server bool) {
	// option sets: 0 WithLimiter only; 1 + custom response classifier; 2 + custom limit-exceeded classifier; 3 both
	for grant := 0; grant < 2; grant++ {
		for cr := range callResults {
			for cls := 0; cls < 3; cls++ {
				for optAll := 0; optAll < 16; optAll++ {
					// bits 0-1: custom classifiers; opt/4: 0 no naming options, 1 WithName+WithTags first, 2 WithName+WithTags last;
					// 12..15: the four classifier sets with a context that is already cancelled
					opt, dead := optAll, false
					if optAll >= 12 {
						opt, dead = optAll-12, true
					}
					callCtx := context.Background()
					if dead {
						callCtx = deadCtx()
					}
					naming := opt / 4
					choices := []int{grant, cr, cls, optAll}
					log := &evlog{}
					lim := &recLimiter{name: "limiter", grant: grant == 1, log: log}
					opts := []gl.InterceptorOption{gl.WithLimiter(lim)}
					if naming == 1 {
						opts = append([]gl.InterceptorOption{gl.WithName("svc"), gl.WithTags([]string{"a:b"})}, opts...)
					}
					custom := opt&1 != 0
					res := callResults[cr]
					argErr := ""
					if custom {
						// the classifier must be shown this call: its request, its result, its error
						if server {
							opts = append(opts, gl.WithServerResponseTypeClassifier(func(ctx context.Context, req interface{}, info *golangGrpc.UnaryServerInfo, resp interface{}, err error) gl.ResponseType {
								if req != "req" || info == nil || info.FullMethod != "/svc/M" || resp != res.resp || err != res.err {
									argErr = fmt.Sprintf("classifier received req=%v info=%v resp=%v err=%v", req, info, resp, err)
								}
								return gl.ResponseType(cls)
							}))
						} else {
							opts = append(opts, gl.WithClientResponseTypeClassifier(func(ctx context.Context, method string, req, reply interface{}, err error) gl.ResponseType {
								if method != "/svc/M" || req != "req" || reply != "reply" || err != res.err {
									argErr = fmt.Sprintf("classifier received method=%v req=%v reply=%v err=%v", method, req, reply, err)
								}
								return gl.ResponseType(cls)
							}))
						}
					}
					wantCode := codes.ResourceExhausted
					if opt&2 != 0 {
						wantCode = codes.Unavailable
						opts = append(opts, gl.WithLimitExceededResponseClassifier(func(ctx context.Context, method string, req interface{}, l core.Limiter) (interface{}, codes.Code, error) {
							return "busy", codes.Unavailable, status.Error(codes.DeadlineExceeded, "busy") // the code is the classifier's second result, whatever the error carries
						}))
					}
					if naming == 2 {
						opts = append(opts, gl.WithName("svc"), gl.WithTags([]string{"a:b"}))
					}
					wantKind := "OnSuccess"
					if custom {
						wantKind = kindNames[cls]
					} else if res.err != nil {
						wantKind = "OnDropped"
					}
					var gotResp any
					var gotErr error
					what := ""
					if server {
						ic := gl.UnaryServerInterceptor(opts...)
						gotResp, gotErr = ic(callCtx, "req", &golangGrpc.UnaryServerInfo{FullMethod: "/svc/M"}, func(ctx context.Context, req interface{}) (interface{}, error) {
							log.add("call")
							return res.resp, res.err
						})
						what = fmt.Sprintf("unary server grant=%v result=%d classifier=%v(%s) limitExceeded=%v naming-options=%s", grant == 1, cr, custom, kindNames[cls], opt&2 != 0, []string{"none", "first", "last"}[naming])
					} else {
						ic := gl.UnaryClientInterceptor(opts...)
						gotErr = ic(callCtx, "/svc/M", "req", "reply", nil, func(ctx context.Context, method string, req, reply interface{}, cc *golangGrpc.ClientConn, o ...golangGrpc.CallOption) error {
							log.add("call")
							return res.err
						})
						gotResp = res.resp
						what = fmt.Sprintf("unary client grant=%v result=%d classifier=%v(%s) limitExceeded=%v naming-options=%s", grant == 1, cr, custom, kindNames[cls], opt&2 != 0, []string{"none", "first", "last"}[naming])
					}
					side := map[bool]string{true: "unary-server", false: "unary-client"}[server]
					c.expect(side, choices, log.ev, "limiter", grant == 1, wantKind, what)
					if argErr != "" {
						c.fail(side+"/classifier-arguments", choices, "%s: %s; the call was req=req result=(%v,%v)", what, argErr, res.resp, res.err)
					}
					if grant == 1 {
						if gotErr != res.err || (server && gotResp != res.resp) {
							c.fail(side+"/result-altered", choices, "%s: returned (%v,%v), the call returned (%v,%v)", what, gotResp, gotErr, res.resp, res.err)
						}
					} else {
						if status.Code(gotErr) != wantCode {
							c.fail(side+"/refusal-code", choices, "%s: returned %v, expected code %v", what, gotErr, wantCode)
						}
					}
					if len(c.sample) < 2 {
						c.sample = append(c.sample, map[string]any{"case": what, "events": log.ev})
					}
				}
			}
		}
	}
	// defaults: the built-in limiter grants; the handler runs and its result comes back unchanged
	for cr, res := range callResults {
		called := 0
		if server {
			ic := gl.UnaryServerInterceptor()
			r, e := ic(context.Background(), "req", &golangGrpc.UnaryServerInfo{FullMethod: "/svc/M"}, func(ctx context.Context, req interface{}) (interface{}, error) {
				called++
				return res.resp, res.err
			})
			c.n++
			if called != 1 || r != res.resp || e != res.err {
				c.fail("unary-server/defaults", []int{cr}, "default options: handler called %d times, returned (%v,%v) for (%v,%v)", called, r, e, res.resp, res.err)
			}
		} else {
			ic := gl.UnaryClientInterceptor()
			e := ic(context.Background(), "/svc/M", "req", "reply", nil, func(ctx context.Context, method string, req, reply interface{}, cc *golangGrpc.ClientConn, o ...golangGrpc.CallOption) error {
				called++
				return res.err
			})
			c.n++
			if called != 1 || e != res.err {
				c.fail("unary-client/defaults", []int{cr}, "default options: invoker called %d times, returned %v for %v", called, e, res.err)
			}
		}
	}
}

// ---- streams ----

type ss struct {
	golangGrpc.ServerStream
	log  *evlog
	next error
	ctx  context.Context // nil = a live context
}

func (s *ss) Context() context.Context {
	if s.ctx != nil {
		return s.ctx
	}
	return context.Background()
}

// deadCtx is a context that was cancelled before the call: the peer went away. The interceptors
// still gate on the limiter and still let the configured classifier choose the outcome.
func deadCtx() context.Context {
	c, cancel := context.WithCancel(context.Background())
	cancel()
	return c
}
func (s *ss) RecvMsg(m interface{}) error { s.log.add("call"); return s.next }
func (s *ss) SendMsg(m interface{}) error { s.log.add("call"); return s.next }

func streams(c *check, maxLen int) {
	// each operation: kind (0 recv, 1 send) x grant x call error (0 nil,1 err) x classifier result
	type op struct{ kind, grant, err, cls int }
	var ops []op
	for k := 0; k < 2; k++ {
		for g := 0; g < 2; g++ {
			for e := 0; e < 2; e++ {
				for cl := 0; cl < 3; cl++ {
					if e == 0 && cl > 0 {
						continue // the classifier is only consulted on error
					}
					ops = append(ops, op{k, g, e, cl})
				}
			}
		}
	}
	var seqs [][]int
	var gen func(cur []int)
	gen = func(cur []int) {
		if len(cur) > 0 {
			seqs = append(seqs, append([]int{}, cur...))
		}
		if len(cur) == maxLen {
			return
		}
		for i := range ops {
			gen(append(cur, i))
		}
	}
	gen(nil)
	for optAll := 0; optAll < 16; optAll++ {
		// 0..11: option sets on a live stream context; 12..15: the four classifier sets on a stream whose
		// context is already cancelled
		opt, dead := optAll, false
		if optAll >= 12 {
			opt, dead = optAll-12, true
		}
		naming := opt / 4
		for _, seq := range seqs {
			if (naming != 0 || dead) && len(seq) > 2 {
				continue // option-order / dead-context variants: sequences up to 2 are enough
			}
			log := &evlog{}
			recv := &recLimiter{name: "recv", log: log}
			send := &recLimiter{name: "send", log: log}
			curCls := 0
			opts := []gl.StreamInterceptorOption{gl.WithStreamRecvLimiter(recv), gl.WithStreamSendLimiter(send)}
			if naming == 1 {
				opts = append([]gl.StreamInterceptorOption{gl.WithStreamSendName("s"), gl.WithStreamRecvName("r")}, opts...)
			}
			custom := opt&1 != 0
			if custom {
				opts = append(opts,
					gl.WithStreamServerResponseTypeClassifier(func(ctx context.Context, req interface{}, info *golangGrpc.StreamServerInfo, err error) gl.ResponseType {
						return gl.ResponseType(curCls)
					}),
					gl.WithStreamClientResponseTypeClassifier(func(ctx context.Context, req interface{}, info *golangGrpc.StreamServerInfo, err error) gl.ResponseType {
						return gl.ResponseType(curCls)
					}))
			}
			recvCode, sendCode := codes.ResourceExhausted, codes.ResourceExhausted
			if opt&2 != 0 {
				recvCode, sendCode = codes.Unavailable, codes.Aborted
				opts = append(opts,
					gl.WithStreamRecvLimitExceededResponseClassifier(func(ctx context.Context, method string, req interface{}, l core.Limiter) (interface{}, codes.Code, error) {
						return nil, codes.Unavailable, status.Error(codes.DeadlineExceeded, "recv busy")
					}),
					gl.WithStreamSendLimitExceededResponseClassifier(func(ctx context.Context, method string, req interface{}, l core.Limiter) (interface{}, codes.Code, error) {
						return nil, codes.Aborted, fmt.Errorf("send busy: %w", status.Error(codes.NotFound, "inner"))
					}))
			}
			if naming == 2 {
				opts = append(opts, gl.WithStreamSendName("s"), gl.WithStreamRecvName("r"))
			}
			inner := &ss{log: log}
			if dead {
				inner.ctx = deadCtx()
			}
			ic := gl.StreamServerInterceptor(opts...)
			choices := append([]int{optAll}, seq...)
			err := ic(nil, inner, &golangGrpc.StreamServerInfo{FullMethod: "/svc/S"}, func(srv interface{}, stream golangGrpc.ServerStream) error {
				for step, oi := range seq {
					o := ops[oi]
					recv.grant, send.grant = o.grant == 1, o.grant == 1
					curCls = o.cls
					inner.next = nil
					if o.err == 1 {
						inner.next = errCall
					}
					before := len(log.ev)
					var e error
					name := "RecvMsg"
					lim := "recv"
					code := recvCode
					if o.kind == 1 {
						name, lim, code = "SendMsg", "send", sendCode
						e = stream.SendMsg("m")
					} else {
						e = stream.RecvMsg("m")
					}
					wantKind := "OnSuccess"
					if o.err == 1 {
						wantKind = "OnDropped"
						if custom {
							wantKind = kindNames[o.cls]
						}
					}
					what := fmt.Sprintf("stream %s (operation %d of %d) grant=%v error=%v custom-classifier=%v(%s) custom-limit-exceeded=%v context-cancelled=%v", name, step+1, len(seq), o.grant == 1, o.err == 1, custom, kindNames[o.cls], opt&2 != 0, dead)
					c.expect("stream-"+strings.ToLower(name), choices, log.ev[before:], lim, o.grant == 1, wantKind, what)
					if o.grant == 1 {
						if e != inner.next {
							c.fail("stream-"+strings.ToLower(name)+"/result-altered", choices, "%s: returned %v, the stream returned %v", what, e, inner.next)
						}
					} else if status.Code(e) != code {
						c.fail("stream-"+strings.ToLower(name)+"/refusal-code", choices, "%s: returned %v, expected code %v", what, e, code)
					}
				}
				return nil
			})
			if err != nil {
				c.fail("stream/handler-result", choices, "interceptor returned %v for a handler that returned nil", err)
			}
		}
	}
}

// streamDefaults: the stream interceptor with no options, and with only one of the two limiters
// supplied (the other direction then runs on the built-in default limiter): every operation reaches
// the stream exactly once, returns the stream's own result, and a supplied limiter is consulted only
// by its own direction.
func streamDefaults(c *check) {
	for mode := 0; mode < 3; mode++ { // 0 no options; 1 custom recv limiter only; 2 custom send limiter only
		for kind := 0; kind < 2; kind++ {
			for e := 0; e < 2; e++ {
				log := &evlog{}
				custom := &recLimiter{name: "custom", grant: true, log: log}
				var opts []gl.StreamInterceptorOption
				switch mode {
				case 1:
					opts = append(opts, gl.WithStreamRecvLimiter(custom))
				case 2:
					opts = append(opts, gl.WithStreamSendLimiter(custom))
				}
				inner := &ss{log: log}
				if e == 1 {
					inner.next = errCall
				}
				choices := []int{mode, kind, e}
				var handlerRet error
				ic := gl.StreamServerInterceptor(opts...)
				err := ic(nil, inner, &golangGrpc.StreamServerInfo{FullMethod: "/svc/S"}, func(srv interface{}, stream golangGrpc.ServerStream) error {
					var got error
					name := "RecvMsg"
					if kind == 1 {
						name = "SendMsg"
						got = stream.SendMsg("m")
					} else {
						got = stream.RecvMsg("m")
					}
					c.n++
					c.states[fmt.Sprint(mode, kind, e, log.ev)] = true
					what := fmt.Sprintf("stream %s with %s, stream error=%v", name, []string{"no options", "only a receive limiter", "only a send limiter"}[mode], e == 1)
					if got != inner.next {
						c.fail("stream-defaults/result-altered", choices, "%s: returned %v, the stream returned %v", what, got, inner.next)
					}
					mine := (mode == 1 && kind == 0) || (mode == 2 && kind == 1)
					want := []string{"call"}
					if mine {
						want = []string{"custom.Acquire", "call", "custom.OnSuccess"}
						if e == 1 {
							want[2] = "custom.OnDropped"
						}
					}
					if strings.Join(log.ev, " ") != strings.Join(want, " ") {
						sig := "stream-defaults/events"
						if !mine && len(log.ev) > 0 && strings.HasPrefix(log.ev[0], "custom.") {
							sig = "stream-defaults/wrong-limiter"
						}
						c.fail(sig, choices, "%s: events %v, expected %v", what, log.ev, want)
					}
					handlerRet = got // the handler passes the operation's result on as its own
					return got
				})
				if err != handlerRet {
					c.fail("stream/handler-result", choices, "interceptor returned %v, the handler returned %v", err, handlerRet)
				}
			}
		}
	}
}

// serialLimiter hands out listeners that carry a serial number, so that the log tells which token
// a completion went to.
type serialLimiter struct {
	n   int
	log *evlog
}

func (r *serialLimiter) Acquire(ctx context.Context) (core.Listener, bool) {
	r.n++
	r.log.add("Acquire#%d", r.n)
	return &recListener{fmt.Sprintf("token#%d", r.n), r.log}, true
}

// unaryOverlap: a second unary call goes through the same interceptor value while the first one's
// handler is still running (nested here; concurrent calls interleave the same way). Each call
// completes its own token, once, with its own outcome, and returns its own result.
func unaryOverlap(c *check, server bool) {
	errA := errors.New("call A failed")
	for ea := 0; ea < 2; ea++ {
		for eb := 0; eb < 2; eb++ {
			log := &evlog{}
			lim := &serialLimiter{log: log}
			choices := []int{ea, eb}
			var resA, resB error
			var wantA, wantB error
			if ea == 1 {
				wantA = errA
			}
			if eb == 1 {
				wantB = errCall
			}
			kind := func(e error) string {
				if e != nil {
					return "OnDropped"
				}
				return "OnSuccess"
			}
			if server {
				ic := gl.UnaryServerInterceptor(gl.WithLimiter(lim))
				_, resA = ic(context.Background(), "A", &golangGrpc.UnaryServerInfo{FullMethod: "/svc/A"}, func(ctx context.Context, req interface{}) (interface{}, error) {
					log.add("handler A starts")
					_, resB = ic(context.Background(), "B", &golangGrpc.UnaryServerInfo{FullMethod: "/svc/B"}, func(ctx context.Context, req interface{}) (interface{}, error) {
						log.add("handler B")
						return nil, wantB
					})
					return nil, wantA
				})
			} else {
				ic := gl.UnaryClientInterceptor(gl.WithLimiter(lim))
				resA = ic(context.Background(), "/svc/A", "A", "reply", nil, func(ctx context.Context, method string, req, reply interface{}, cc *golangGrpc.ClientConn, o ...golangGrpc.CallOption) error {
					log.add("handler A starts")
					resB = ic(context.Background(), "/svc/B", "B", "reply", nil, func(ctx context.Context, method string, req, reply interface{}, cc *golangGrpc.ClientConn, o ...golangGrpc.CallOption) error {
						log.add("handler B")
						return wantB
					})
					return wantA
				})
			}
			c.n++
			c.states[fmt.Sprint(server, choices, log.ev)] = true
			want := []string{"Acquire#1", "handler A starts", "Acquire#2", "handler B", "token#2." + kind(wantB), "token#1." + kind(wantA)}
			side := map[bool]string{true: "server", false: "client"}[server]
			if strings.Join(log.ev, " ") != strings.Join(want, " ") {
				c.fail("unary-"+side+"-overlap/token-completion", choices, "two overlapping unary %s calls (A err=%v, B err=%v): events %v, expected %v", side, ea == 1, eb == 1, log.ev, want)
			}
			if resA != wantA || resB != wantB {
				c.fail("unary-"+side+"-overlap/result-altered", choices, "two overlapping unary %s calls: A returned %v (handler %v), B returned %v (handler %v)", side, resA, wantA, resB, wantB)
			}
		}
	}
}

// streamOverlap: two streams served by the same interceptor value at the same time (the second is
// accepted while the first one's handler is running). Every operation must go through its own
// stream, with its own result, whatever the order in which the two handlers use their streams.
func streamOverlap(c *check) {
	errA, errB := errors.New("stream A failed"), errors.New("stream B failed")
	for kindA := 0; kindA < 2; kindA++ {
		for kindB := 0; kindB < 2; kindB++ {
			for ea := 0; ea < 2; ea++ {
				for eb := 0; eb < 2; eb++ {
					for order := 0; order < 2; order++ { // 0: B operates first, 1: A operates first
						log := &evlog{}
						recv := &recLimiter{name: "recv", grant: true, log: log}
						send := &recLimiter{name: "send", grant: true, log: log}
						ic := gl.StreamServerInterceptor(gl.WithStreamRecvLimiter(recv), gl.WithStreamSendLimiter(send))
						logA, logB := &evlog{}, &evlog{}
						innerA, innerB := &ss{log: logA}, &ss{log: logB}
						if ea == 1 {
							innerA.next = errA
						}
						if eb == 1 {
							innerB.next = errB
						}
						choices := []int{kindA, kindB, ea, eb, order}
						do := func(st golangGrpc.ServerStream, kind int) error {
							if kind == 1 {
								return st.SendMsg("m")
							}
							return st.RecvMsg("m")
						}
						var gotA, gotB error
						ic(nil, innerA, &golangGrpc.StreamServerInfo{FullMethod: "/svc/A"}, func(srv interface{}, stA golangGrpc.ServerStream) error {
							if order == 1 {
								gotA = do(stA, kindA)
							}
							ic(nil, innerB, &golangGrpc.StreamServerInfo{FullMethod: "/svc/B"}, func(srv interface{}, stB golangGrpc.ServerStream) error {
								if order == 1 {
									gotB = do(stB, kindB)
									return nil
								}
								gotB = do(stB, kindB)
								gotA = do(stA, kindA) // A's handler uses its stream while B's is still open
								return nil
							})
							return nil
						})
						c.n++
						c.states[fmt.Sprint(choices, logA.ev, logB.ev, log.ev)] = true
						what := fmt.Sprintf("two overlapping streams on one interceptor (A: %s err=%v, B: %s err=%v, %s operates first)",
							[]string{"RecvMsg", "SendMsg"}[kindA], ea == 1, []string{"RecvMsg", "SendMsg"}[kindB], eb == 1, []string{"B", "A"}[order])
						if len(logA.ev) != 1 || len(logB.ev) != 1 {
							c.fail("stream-overlap/wrong-stream", choices, "%s: stream A was called %d times and stream B %d times, expected once each", what, len(logA.ev), len(logB.ev))
						}
						if gotA != innerA.next || gotB != innerB.next {
							c.fail("stream-overlap/result-altered", choices, "%s: A returned %v (its stream returned %v), B returned %v (its stream returned %v)", what, gotA, innerA.next, gotB, innerB.next)
						}
					}
				}
			}
		}
	}
}

// nestSS is a stream whose operation lets another operation on the same wrapped stream run while
// it is in progress: gRPC allows one goroutine in RecvMsg and another in SendMsg on one stream, and
// the inner stream is the seam at which they overlap (nested here; concurrent calls interleave the
// same way at this granularity).
type nestSS struct {
	golangGrpc.ServerStream
	log    *evlog
	during func()
	errs   []error // result of the outer operation, then of the nested one
	n      int
}

func (s *nestSS) Context() context.Context { return context.Background() }
func (s *nestSS) op(name string) error {
	i := s.n
	s.n++
	s.log.add("%s#%d starts", name, i)
	if i == 0 && s.during != nil {
		s.during()
	}
	s.log.add("%s#%d ends", name, i)
	return s.errs[i]
}
func (s *nestSS) RecvMsg(m interface{}) error { return s.op("stream.RecvMsg") }
func (s *nestSS) SendMsg(m interface{}) error { return s.op("stream.SendMsg") }

type namedSerialLimiter struct {
	name string
	n    int
	log  *evlog
}

func (r *namedSerialLimiter) Acquire(ctx context.Context) (core.Listener, bool) {
	r.n++
	r.log.add("%s.Acquire#%d", r.name, r.n)
	return &recListener{fmt.Sprintf("%s.token#%d", r.name, r.n), r.log}, true
}

// streamSelfOverlap: a RecvMsg and a SendMsg (either may be the outer one, and also two operations
// of the same kind) in progress on ONE wrapped stream at the same time. Each operation acquires from
// its own limiter and completes its own token exactly once with its own outcome.
func streamSelfOverlap(c *check) {
	errOuter, errNested := errors.New("outer operation failed"), errors.New("nested operation failed")
	names := []string{"RecvMsg", "SendMsg"}
	lims := []string{"recv", "send"}
	for outer := 0; outer < 2; outer++ {
		for nested := 0; nested < 2; nested++ {
			for eo := 0; eo < 2; eo++ {
				for en := 0; en < 2; en++ {
					log := &evlog{}
					recv := &namedSerialLimiter{name: "recv", log: log}
					send := &namedSerialLimiter{name: "send", log: log}
					ic := gl.StreamServerInterceptor(gl.WithStreamRecvLimiter(recv), gl.WithStreamSendLimiter(send))
					inner := &nestSS{log: log, errs: []error{nil, nil}}
					if eo == 1 {
						inner.errs[0] = errOuter
					}
					if en == 1 {
						inner.errs[1] = errNested
					}
					choices := []int{outer, nested, eo, en}
					var gotOuter, gotNested error
					do := func(st golangGrpc.ServerStream, kind int) error {
						if kind == 1 {
							return st.SendMsg("m")
						}
						return st.RecvMsg("m")
					}
					ic(nil, inner, &golangGrpc.StreamServerInfo{FullMethod: "/svc/S"}, func(srv interface{}, st golangGrpc.ServerStream) error {
						inner.during = func() { gotNested = do(st, nested) }
						gotOuter = do(st, outer)
						return nil
					})
					c.n++
					c.states[fmt.Sprint(choices, log.ev)] = true
					kind := func(e error) string {
						if e != nil {
							return "OnDropped"
						}
						return "OnSuccess"
					}
					outerTok, nestedTok := lims[outer]+".token#1", lims[nested]+".token#1"
					nestedAcq := lims[nested] + ".Acquire#1"
					if outer == nested {
						nestedTok, nestedAcq = lims[nested]+".token#2", lims[nested]+".Acquire#2"
					}
					want := []string{lims[outer] + ".Acquire#1", "stream." + names[outer] + "#0 starts", nestedAcq, "stream." + names[nested] + "#1 starts",
						"stream." + names[nested] + "#1 ends", nestedTok + "." + kind(inner.errs[1]), "stream." + names[outer] + "#0 ends", outerTok + "." + kind(inner.errs[0])}
					what := fmt.Sprintf("%s (err=%v) in progress on a stream while %s (err=%v) runs on the same stream", names[outer], eo == 1, names[nested], en == 1)
					if strings.Join(log.ev, " | ") != strings.Join(want, " | ") {
						c.fail("stream-self-overlap/token-completion", choices, "%s: events %v, expected %v", what, log.ev, want)
					}
					if gotOuter != inner.errs[0] || gotNested != inner.errs[1] {
						c.fail("stream-self-overlap/result-altered", choices, "%s: outer returned %v (stream %v), nested returned %v (stream %v)", what, gotOuter, inner.errs[0], gotNested, inner.errs[1])
					}
				}
			}
		}
	}
}

func main() {
	prop := flag.String("prop", "C14", "")
	tier := flag.String("tier", "quick", "")
	shard := flag.Int("shard", 0, "")
	nshard := flag.Int("nshard", 1, "")
	out := flag.String("out", "", "")
	flag.Duration("budget", 0, "")
	replay := flag.String("replay", "", "")
	flag.Parse()
	_ = nshard
	start := time.Now()
	o := output{Property: *prop, Tier: *tier, Shard: *shard}
	run := func(model, params string, f func(c *check)) {
		c := &check{model: model, fails: map[string]*violation{}, counts: map[string]int{}, states: map[string]bool{}}
		t0 := time.Now()
		f(c)
		o.ModeS = append(o.ModeS, modeS{Model: model, Params: params, States: len(c.states), Transitions: c.n, Nontrivial: c.n, Depth: 1, MaxDepth: 1,
			Fixpoint: true, Exhaustive: true, SigCounts: c.counts, WallS: time.Since(t0).Seconds()})
		for _, v := range c.fails {
			v.Params = params
			o.Violations = append(o.Violations, *v)
		}
		if len(o.Samples) < 3 && len(c.sample) > 0 {
			o.Samples = append(o.Samples, c.sample[0])
		}
	}
	maxLen := 3
	if *tier == "thorough" {
		maxLen = 4
	}
	if *replay != "" {
		// the space is tiny: a replay re-runs the whole model and reports the recorded signature again
		b, _ := os.ReadFile(*replay)
		var v violation
		json.Unmarshal(b, &v)
		maxLen = 4
		*shard = 0
		defer func() {
			for _, x := range o.Violations {
				if x.Scenario == v.Scenario && len(v.Failures) > 0 && x.Failures[0].Sig == v.Failures[0].Sig {
					fmt.Printf("  FAIL [%s] %s\nREPLAY: violation reproduced\n", x.Failures[0].Sig, x.Failures[0].Msg)
					os.Exit(1)
				}
			}
			fmt.Println("REPLAY: no violation")
			os.Exit(0)
		}()
	}
	if *shard == 0 { // finite and small: shard 0 does everything
		run("C14/unary-server", "limiter answer x call result x classifier result x options", func(c *check) { unary(c, true) })
		run("C14/unary-client", "limiter answer x call result x classifier result x options", func(c *check) { unary(c, false) })
		run("C14/stream", fmt.Sprintf("all sequences of <=%d RecvMsg/SendMsg x grant x error x classifier x options; distinct recv/send limiters", maxLen), func(c *check) { streams(c, maxLen) })
		run("C14/unary-overlap", "a second call through the same interceptor value while the first handler runs x results; server and client", func(c *check) { unaryOverlap(c, true); unaryOverlap(c, false) })
		run("C14/stream-overlap", "two streams on one interceptor value x RecvMsg/SendMsg x stream errors x order of use", streamOverlap)
		run("C14/stream-self-overlap", "RecvMsg/SendMsg in progress on one stream while RecvMsg/SendMsg runs on the same stream x stream errors", streamSelfOverlap)
		run("C14/stream-defaults", "no options / only one limiter supplied x RecvMsg/SendMsg x stream error", streamDefaults)
	}
	o.WallS = time.Since(start).Seconds()
	if *replay != "" {
		return
	}
	b, _ := json.MarshalIndent(o, "", " ")
	if *out != "" {
		os.WriteFile(*out, b, 0o644)
	} else {
		fmt.Println(string(b))
	}
}
