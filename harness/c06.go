package main

import (
	"fmt"
	"math"

	"verif/vrt"

	"verif/mc"
)

// C06 — loss response. Mode S over the reachable states of AIMD, Vegas and Gradient: at every
// transition a drop sample must not raise the estimate (AIMD: the exact rule); at every newly
// reached state a sustained run of drops (at each RTT of the alphabet) must reach the floor within
// N samples, N computed from the configuration with a wide margin. The runs include drops that
// carry no RTT (rtt 0), directly and as the windowed wrapper produces them from drop-only windows.

func init() { props["C06"] = runC06 }

func c06Floor(li *limInst) int {
	if li.cfg.algo == "gradient" {
		est := li.top.EstimatedLimit()
		q := li.cfg.queueAt(est)
		if li.cfg.min > q {
			return li.cfg.min
		}
		return q
	}
	return 1
}

func c06N(li *limInst) int {
	est := li.top.EstimatedLimit()
	if est < 1 {
		est = 1
	}
	switch li.cfg.algo {
	case "aimd":
		if li.cfg.backoff >= 1 {
			return est + 2
		}
		return int(math.Ceil(math.Log(float64(est))/-math.Log(li.cfg.backoff))) + est + 2
	}
	s := li.cfg.smoothing
	if s <= 0 {
		s = 1
	}
	p := li.cfg.probe
	if p < 0 {
		p = 0
	}
	period := p
	if li.cfg.algo == "vegas" {
		period = p * li.cfg.ceiling(0)
	}
	return int(8*float64(est)/s) + 4*period + 8
}

func c06Hooks(level int) limHooks {
	return limHooks{
		name: "C06", level: level, withZero: false, withHuge: false,
		step: func(li *limInst, s sample, before, after int, pm string, t *mc.Tr) {
			cls := li.cfg.algo
			if pm != "" {
				t.Note("panic (reported by C04 only): " + fmt.Sprintf("OnSample(%s) panicked: %s", s, pm))
				return
			}
			if !s.drop || li.cfg.wrapper == "windowed" {
				// behind the wrapper a sample is not what the algorithm receives (C09); the drop-only
				// window runs of the per-state probe are the oracle there
				return
			}
			if after > before {
				sub := "general"
				if li.cfg.algo == "gradient" && before < li.cfg.queueAt(before) {
					sub = "estimate-below-queue-allowance"
				}
				t.Fail(cls+"/drop-raised-estimate/"+sub, "drop sample %s raised the estimate %d -> %d", s, before, after)
			}
			if li.cfg.algo == "aimd" {
				want := int(math.Max(1, math.Min(float64(before-1), float64(before)*li.cfg.backoff)))
				if after != want {
					t.Fail("aimd/drop-rule", "drop at limit %d with ratio %v gave %d, expected max(1,min(l-1,floor(l*ratio)))=%d", before, li.cfg.backoff, after, want)
				}
			}
		},
		probe: func(fresh func() *limInst, t *mc.Tr) {
			rtts := []int64{0, baseRTT / 2, baseRTT, 3 * baseRTT}
			if fresh().cfg.wrapper == "windowed" {
				rtts = []int64{baseRTT} // every sample closes a window that holds only this drop: the delegate sees rtt 0
			}
			for _, rtt := range rtts {
				li := fresh()
				n := c06N(li)
				start := li.top.EstimatedLimit()
				prev := start
				reached := false
				for i := 0; i < n; i++ {
					smp := sample{rtt: rtt, inflight: prev, drop: true}
					if li.cfg.wrapper == "windowed" {
						smp.inflight, smp.gap = prev+11, 2e8
					}
					if pm := li.apply(smp); pm != "" {
						t.Note("panic (reported by C04 only): " + fmt.Sprintf("drop run panicked: %s", pm))
						return
					}
					cur := li.top.EstimatedLimit()
					if cur > prev {
						sub := "general"
						if li.cfg.algo == "gradient" && prev < li.cfg.queueAt(prev) {
							sub = "estimate-below-queue-allowance"
						}
						t.Fail(li.cfg.algo+"/drop-raised-estimate/"+sub, "in a run of drops at rtt=%d the estimate rose %d -> %d (sample %d)", rtt, prev, cur, i)
					}
					prev = cur
					if cur <= c06Floor(li) {
						reached = true
						break
					}
				}
				if !reached {
					t.Fail(li.cfg.algo+"/drops-do-not-reach-floor", "%d drops at rtt=%d moved the estimate %d -> %d, floor is %d", n, rtt, start, prev, c06Floor(li))
				}
			}
		},
	}
}

// c06Concurrent: k threads report the same drop sample at once. Whatever the interleaving, the
// result is that of k drops one after the other (identical operations commute), so in particular no
// drop may raise the estimate because it worked from a stale value.
func c06Concurrent(cfg limCfg, k int) *mc.Scenario {
	return &mc.Scenario{
		Name:   "C06/concurrent/" + cfg.algo,
		Params: fmt.Sprintf("%v; one healthy sample, then %d identical drop samples from %d threads", cfg, k, k),
		Cfg:    vrt.Config{MaxSteps: 4000},
		Body: func(x *mc.Exec) {
			drop := sample{rtt: baseRTT, inflight: 2*cfg.initial + 1, drop: true}
			ref := cfg.build(nil)
			ref.apply(sample{rtt: baseRTT, inflight: 2*cfg.initial + 1})
			start := ref.top.EstimatedLimit()
			for i := 0; i < k; i++ {
				ref.apply(drop)
			}
			want := ref.top.EstimatedLimit()
			li := cfg.build(nil)
			li.apply(sample{rtt: baseRTT, inflight: 2*cfg.initial + 1})
			var ths []*vrt.Thread
			for i := 0; i < k; i++ {
				ths = append(ths, vrt.GoL(fmt.Sprintf("D%d", i), func() { li.top.OnSample(0, drop.rtt, drop.inflight, true) }))
			}
			vrt.Join(ths...)
			got := li.top.EstimatedLimit()
			x.Observe("start=%d got=%d", start, got)
			x.MarkConflict()
			if got > start {
				x.Fail(cfg.algo+"/drop-raised-estimate/concurrent", "%d concurrent drops moved the estimate %d -> %d", k, start, got)
			} else if got != want {
				x.Fail(cfg.algo+"/concurrent-drops-differ", "%d concurrent drops left the estimate at %d, the same drops one after the other give %d (from %d)", k, got, want, start)
			}
		},
	}
}

func runC06(c *Ctx) {
	for _, cfg := range []limCfg{
		{algo: "aimd", initial: 50, backoff: 0.5, incr: 1},
		{algo: "vegas", initial: 40, max: 100, smoothing: 1.0, probe: 30},
		{algo: "gradient", initial: 40, min: 1, max: 100, smoothing: 1.0, queue: "fixed2", tol: 2.0, probe: -1},
	} {
		c.Explore(c06Concurrent(cfg, 2), mc.Options{PreemptBound: c.Pick(3, -1), NoCache: true})
		c.Explore(c06Concurrent(cfg, 3), mc.Options{PreemptBound: c.Pick(2, 3)})
	}
	level := c.Pick(0, 1)
	depth := c.Pick(6, 8)
	for _, cfg := range limGrid(1) {
		if cfg.algo == "gradient2" || cfg.initial > 100 || (cfg.algo == "vegas" && cfg.probe < 4) {
			continue
		}
		c.runBFS(limModel(cfg, c06Hooks(level)), mc.BFSOptions{MaxDepth: depth, DevBound: c.Pick(1, 2), MaxStates: c.Pick(300000, 3000000)})
		// the same algorithm behind the windowed wrapper, driven with windows that hold only drops
		cfg.wrapper = "windowed"
		c.runBFS(limModel(cfg, c06Hooks(level)), mc.BFSOptions{MaxDepth: depth - 1, DevBound: c.Pick(1, 2), MaxStates: c.Pick(300000, 3000000)})
	}
}
