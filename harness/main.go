// Command vharness is the per-run checker binary: the repository packages are compiled into it
// through the vrewrite overlay, so every scenario below drives the real code under the virtual
// runtime. It is built and invoked by cmd/vcheck.
package main

import (
	"encoding/json"
	"flag"
	"fmt"
	"os"
	"sort"
	"strings"
	"time"

	"verif/mc"
)

// Output is what one shard reports back to the driver.
type Output struct {
	Property   string          `json:"property"`
	Tier       string          `json:"tier"`
	Shard      int             `json:"shard"`
	ModeT      []*mc.Stats     `json:"mode_t,omitempty"`
	ModeS      []*mc.BFSStats  `json:"mode_s,omitempty"`
	Violations []*mc.Violation `json:"violations,omitempty"`
	Samples    []any           `json:"samples,omitempty"`
	Notes      []string        `json:"notes,omitempty"`
	TimedOut   bool            `json:"timed_out"`
	WallS      float64         `json:"wall_s"`
}

// Ctx is handed to each property's run function.
type Ctx struct {
	Prop     string
	Tier     string
	Shard    int
	NShard   int
	Deadline time.Time
	Out      *Output
	seq      int
	// replay mode
	replay  *mc.Violation
	only    string
	verbose bool
}

func (c *Ctx) Thorough() bool { return c.Tier == "thorough" }

// Pick returns q in the quick tier and t in the thorough tier.
func (c *Ctx) Pick(q, t int) int {
	if c.Thorough() {
		return t
	}
	return q
}

// Mine reports whether the next unit of work (counted in call order) belongs to this shard.
func (c *Ctx) Mine() bool {
	k := c.seq
	c.seq++
	return c.NShard <= 1 || k%c.NShard == c.Shard
}

func (c *Ctx) expired() bool {
	if !c.Deadline.IsZero() && time.Now().After(c.Deadline) {
		c.Out.TimedOut = true
		return true
	}
	return false
}

// Explore runs one Mode-T scenario (whole scenario on one shard).
func (c *Ctx) Explore(sc *mc.Scenario, opt mc.Options) {
	if c.replay != nil {
		if c.replay.Scenario == sc.Name && c.replay.Params == sc.Params {
			doReplay(sc, c.replay)
		}
		return
	}
	if c.only != "" && !strings.Contains(sc.Name+" "+sc.Params, c.only) {
		return
	}
	if !c.Mine() || c.expired() {
		return
	}
	opt.Deadline = c.Deadline
	st := mc.Explore(sc, opt)
	c.addStats(st)
}

// ExploreBig runs one Mode-T scenario split over all shards by first-level subtree.
func (c *Ctx) ExploreBig(sc *mc.Scenario, opt mc.Options) {
	if c.replay != nil {
		if c.replay.Scenario == sc.Name && c.replay.Params == sc.Params {
			doReplay(sc, c.replay)
		}
		return
	}
	if c.only != "" && !strings.Contains(sc.Name+" "+sc.Params, c.only) {
		return
	}
	if c.expired() {
		return
	}
	opt.Deadline = c.Deadline
	opt.Shard, opt.NShard = c.Shard, c.NShard
	st := mc.Explore(sc, opt)
	c.addStats(st)
}

func (c *Ctx) addStats(st *mc.Stats) {
	if c.verbose {
		fmt.Fprintf(os.Stderr, "%-28s %-80.80s exec=%-8d steps/exec=%-4d hb=%-8d prunes=%-8d outcomes=%-4d exh=%v viol=%v %.1fs\n", st.Scenario, st.Params,
			st.Executions, st.Steps/max64(1, st.Executions), st.CacheStates, st.CachePrunes, st.Outcomes, st.Exhaustive, st.SigCounts, st.WallS)
	}
	if !st.Exhaustive && !c.Deadline.IsZero() && time.Now().After(c.Deadline) {
		c.Out.TimedOut = true
	}
	for _, v := range st.Violations {
		v.Property = c.Prop
		c.Out.Violations = append(c.Out.Violations, v)
	}
	if st.Sample != nil && len(c.Out.Samples) < 3 {
		c.Out.Samples = append(c.Out.Samples, map[string]any{"scenario": st.Scenario, "params": st.Params,
			"choices": st.Sample.Choices, "observations": st.Sample.Obs})
	}
	c.Out.ModeT = append(c.Out.ModeT, st)
}

// runBFS runs one Mode-S model (whole model on one shard), or replays a recorded path of it.
func (c *Ctx) runBFS(m *mc.Model, opt mc.BFSOptions) {
	if c.replay != nil {
		if c.replay.Scenario == m.Name && c.replay.Params == m.Params {
			fails, notes := mc.ReplayBFS(m, c.replay.Choices)
			fmt.Printf("replay model=%s params=%s\n", m.Name, m.Params)
			for _, n := range notes {
				fmt.Println("  " + n)
			}
			for _, f := range fails {
				fmt.Printf("  FAIL [%s] %s\n", f.Sig, f.Msg)
			}
			if len(fails) > 0 {
				fmt.Println("REPLAY: violation reproduced")
				os.Exit(1)
			}
			fmt.Println("REPLAY: no violation")
			os.Exit(0)
		}
		return
	}
	if c.only != "" && !strings.Contains(m.Name+" "+m.Params, c.only) {
		return
	}
	if !c.Mine() || c.expired() {
		return
	}
	opt.Deadline = c.Deadline
	st := mc.BFS(m, opt)
	if c.verbose {
		fmt.Fprintf(os.Stderr, "%-28s %-80.80s states=%-8d trans=%-9d depth=%d/%d fixpoint=%v exh=%v viol=%v %.1fs\n", st.Model, st.Params,
			st.States, st.Transitions, st.Depth, st.MaxDepth, st.Fixpoint, st.Exhaustive, st.SigCounts, st.WallS)
	}
	c.AddBFS(st)
}

// AddBFS records a Mode-S result.
func (c *Ctx) AddBFS(st *mc.BFSStats) {
	for _, v := range st.Violations {
		v.Property = c.Prop
		c.Out.Violations = append(c.Out.Violations, v)
	}
	if len(st.Samples) > 0 && len(c.Out.Samples) < 3 {
		c.Out.Samples = append(c.Out.Samples, map[string]any{"model": st.Model, "params": st.Params, "path": st.Samples[0]})
	}
	if !st.Exhaustive && !c.Deadline.IsZero() && time.Now().After(c.Deadline) {
		c.Out.TimedOut = true
	}
	c.Out.ModeS = append(c.Out.ModeS, st)
}

func doReplay(sc *mc.Scenario, v *mc.Violation) {
	x, r := mc.RunOnce(sc, v.Choices, true)
	fmt.Printf("replay scenario=%s params=%s choices=%v\n", sc.Name, sc.Params, v.Choices)
	for _, s := range r.Trace {
		fmt.Printf("  [%6d] T%d %-12s %s\n", s.Clock, s.Thread, s.Label, s.Op)
	}
	out := mc.ReplayView(x, r)
	b, _ := json.MarshalIndent(out, "", " ")
	fmt.Println(string(b))
	if x.Failed() {
		fmt.Println("REPLAY: violation reproduced")
		os.Exit(1)
	}
	fmt.Println("REPLAY: no violation")
	os.Exit(0)
}

func max64(a, b int64) int64 {
	if a > b {
		return a
	}
	return b
}

var props = map[string]func(c *Ctx){}

func main() {
	prop := flag.String("prop", "", "property id")
	tier := flag.String("tier", "quick", "quick|thorough")
	shard := flag.Int("shard", 0, "shard index")
	nshard := flag.Int("nshard", 1, "number of shards")
	out := flag.String("out", "", "output json")
	budget := flag.Duration("budget", 0, "internal deadline (0 = none)")
	replay := flag.String("replay", "", "replay file")
	list := flag.Bool("list", false, "list properties")
	only := flag.String("only", "", "run only scenarios whose name+params contain this")
	verbose := flag.Bool("v", false, "print per-scenario statistics")
	flag.Parse()
	if *list {
		var ks []string
		for k := range props {
			ks = append(ks, k)
		}
		sort.Strings(ks)
		for _, k := range ks {
			fmt.Println(k)
		}
		return
	}
	start := time.Now()
	c := &Ctx{Prop: *prop, Tier: *tier, Shard: *shard, NShard: *nshard, Out: &Output{Property: *prop, Tier: *tier, Shard: *shard}}
	if *budget > 0 {
		c.Deadline = start.Add(*budget)
	}
	c.only, c.verbose = *only, *verbose
	if *replay != "" {
		b, err := os.ReadFile(*replay)
		if err != nil {
			fmt.Fprintln(os.Stderr, err)
			os.Exit(3)
		}
		var v mc.Violation
		if err := json.Unmarshal(b, &v); err != nil {
			fmt.Fprintln(os.Stderr, err)
			os.Exit(3)
		}
		c.replay = &v
		c.Prop = v.Property
		c.Tier = "thorough"
		f := props[c.Prop]
		if f == nil {
			fmt.Fprintln(os.Stderr, "unknown property", c.Prop)
			os.Exit(3)
		}
		f(c)
		// Mode-S replays are handled inside the property function; if we get here nothing matched in thorough; try quick
		c.Tier = "quick"
		f(c)
		fmt.Fprintln(os.Stderr, "replay: scenario not found:", v.Scenario, v.Params)
		os.Exit(3)
	}
	f := props[*prop]
	if f == nil {
		fmt.Fprintln(os.Stderr, "unknown property", *prop)
		os.Exit(3)
	}
	f(c)
	c.Out.WallS = time.Since(start).Seconds()
	if *out != "" {
		if err := mc.WriteJSON(*out, c.Out); err != nil {
			fmt.Fprintln(os.Stderr, err)
			os.Exit(3)
		}
	} else {
		b, _ := json.MarshalIndent(c.Out, "", " ")
		fmt.Println(string(b))
	}
}
