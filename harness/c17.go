package main

import (
	"fmt"
	"os"
	"reflect"
	"regexp"
	"sort"
	"strings"
	"time"

	dogstatsd "github.com/DataDog/datadog-go/v5/statsd"
	gometricslib "github.com/rcrowley/go-metrics"

	"github.com/platinummonkey/go-concurrency-limits/core"
	"github.com/platinummonkey/go-concurrency-limits/limit"
	"github.com/platinummonkey/go-concurrency-limits/limit/functions"
	"github.com/platinummonkey/go-concurrency-limits/limiter"
	"github.com/platinummonkey/go-concurrency-limits/measurements"
	ddreg "github.com/platinummonkey/go-concurrency-limits/metric_registry/datadog"
	gmreg "github.com/platinummonkey/go-concurrency-limits/metric_registry/gometrics"
	"github.com/platinummonkey/go-concurrency-limits/strategy"

	"verif/mc"
	"verif/vrt"
	"verif/vrt/vctx"
	"verif/vrt/vsync"
)

// C17 — concurrent use of the public API is free of data races. Mode T in race mode: the harness
// is built with -race; every unordered pair of exported calls on a shared instance runs as two
// threads under the cooperative scheduler, all interleavings of their synchronisation operations
// are enumerated, and ThreadSanitizer's happens-before analysis is the per-execution monitor (the
// scheduler's own hand-offs are hidden from it, see package vrt). A report is attributed to the
// execution that produced it; its signature is the pair of innermost repository functions.

func init() { props["C17"] = runC17 }

type c17Op struct {
	name string
	do   func(inst any)
}

type c17Type struct {
	name string
	mk   func() any
	ops  []c17Op
	// done releases resources of the instance after the execution (optional)
	done func(inst any)
	// eager: pending timers (a registry's poll tick) may fire at any schedule point, so the poller's
	// body interleaves with the calls instead of waiting for quiescence
	eager bool
	// pb overrides the preemption bound (0 = the tier's)
	pb int
}

// c17Stack is a limiter whose limit, strategy and partitions report to a started registry.
type c17Stack struct {
	l   *limiter.DefaultLimiter
	reg core.MetricRegistry
}

var raceLogOff int64

func raceLogPath() string {
	p := os.Getenv("VERIF_RACELOG")
	if p == "" {
		return ""
	}
	return fmt.Sprintf("%s.%d", p, os.Getpid())
}

// newRaceReports returns the race reports appended to the log since the last call.
func newRaceReports() []string {
	p := raceLogPath()
	if p == "" {
		return nil
	}
	b, err := os.ReadFile(p)
	if err != nil || int64(len(b)) <= raceLogOff {
		return nil
	}
	txt := string(b[raceLogOff:])
	raceLogOff = int64(len(b))
	var out []string
	for _, part := range strings.Split(txt, "==================") {
		if strings.Contains(part, "DATA RACE") {
			out = append(out, strings.TrimSpace(part))
		}
	}
	return out
}

var frameRe = regexp.MustCompile(`(?m)^  (\S+)\(\)\n`)

const repoMod = "github.com/platinummonkey/go-concurrency-limits/"

// raceSig extracts the pair of innermost repository functions of the two accesses.
func raceSig(report string) (sig string, inRepo bool) {
	// split into the two access stacks: they precede the first "Goroutine " paragraph
	body := report
	if i := strings.Index(body, "\nGoroutine "); i >= 0 {
		body = body[:i]
	}
	parts := strings.Split(body, "\n\n")
	var fns []string
	for _, st := range parts {
		if !strings.Contains(st, " by ") {
			continue
		}
		fn := ""
		for _, m := range frameRe.FindAllStringSubmatch(st+"\n", -1) {
			if strings.HasPrefix(m[1], repoMod) {
				fn = strings.TrimPrefix(m[1], repoMod)
				break
			}
		}
		if fn == "" {
			fn = "<outside-repository>"
		} else {
			inRepo = true
		}
		fns = append(fns, fn)
	}
	sort.Strings(fns)
	return strings.Join(fns, " <-> "), inRepo
}

func c17Scenario(ty c17Type, pb int) *mc.Scenario {
	type pair struct{ a, b int }
	var pairs []pair
	for i := range ty.ops {
		for j := i; j < len(ty.ops); j++ {
			pairs = append(pairs, pair{i, j})
		}
	}
	return &mc.Scenario{
		Name:        "C17/" + ty.name,
		Params:      fmt.Sprintf("%d calls, %d unordered pairs (incl. a call with itself), two threads on one shared instance", len(ty.ops), len(pairs)),
		Cfg:         vrt.Config{MaxSteps: 4000, Horizon: int64(time.Minute), EagerClock: ty.eager},
		MonitorOnce: true,
		Body: func(x *mc.Exec) {
			p := pairs[vrt.Choose(len(pairs))]
			inst := ty.mk()
			x.Aux = ty.ops[p.a].name + " || " + ty.ops[p.b].name
			a := vrt.Go(func() { ty.ops[p.a].do(inst) })
			b := vrt.Go(func() { ty.ops[p.b].do(inst) })
			vrt.Join(a, b)
			if ty.done != nil {
				ty.done(inst)
			}
			x.MarkConflict()
		},
		Post: func(x *mc.Exec, r *vrt.Result) {
			what, _ := x.Aux.(string)
			x.Observe("%s", what)
			if r.Stuck && r.TimersBeyondHorizon == 0 {
				// every goroutine blocked for good: the runtime aborts ("all goroutines are asleep")
				x.Fail("deadlock/"+ty.name, "%s deadlocked: %v", what, r.StuckInfo)
			}
			for _, rep := range newRaceReports() {
				sig, inRepo := raceSig(rep)
				if !inRepo {
					x.Fail("self-inflicted/"+sig, "race report outside repository code during %s on %s:\n%s", what, ty.name, rep)
					continue
				}
				x.Fail("race/"+sig, "data race during %s on a shared %s:\n%s", what, ty.name, clip(rep, 1800))
			}
		},
	}
}

func clip(s string, n int) string {
	if len(s) > n {
		return s[:n] + "…"
	}
	return s
}

// ---- calibration: the monitor must see through the scheduler ----

type calib struct {
	mu vsync.Mutex
	x  int
}

func c17Calibration() []*mc.Scenario {
	mk := func(name string, a, b func(c *calib), expect string) *mc.Scenario {
		return &mc.Scenario{
			Name:   "C17/calibration/" + name,
			Params: "expect " + expect,
			Body: func(x *mc.Exec) {
				c := &calib{}
				ta := vrt.Go(func() { a(c) })
				tb := vrt.Go(func() { b(c) })
				vrt.Join(ta, tb)
				x.MarkConflict()
			},
			Post: func(x *mc.Exec, r *vrt.Result) {
				n := len(newRaceReports())
				x.Observe("reports=%d", n)
				if n > 0 {
					calibReports[name]++
				}
				calibExecs[name]++
			},
		}
	}
	locked := func(c *calib) { c.mu.Lock(); c.x++; c.mu.Unlock() }
	unlocked := func(c *calib) { c.x++ }
	// visible only when B's critical section precedes A's
	aFirst := func(c *calib) { c.x = 1; c.mu.Lock(); c.mu.Unlock() }
	bReads := func(c *calib) { c.mu.Lock(); c.mu.Unlock(); _ = c.x }
	return []*mc.Scenario{
		mk("locked", locked, locked, "no report on any schedule"),
		mk("unlocked", unlocked, unlocked, "a report"),
		mk("order-dependent", aFirst, bReads, "a report on some schedules only"),
	}
}

// gmBackends remembers the go-metrics backend of each registry built for an execution: its timers
// own meters that the library's global arbiter keeps alive until they are unregistered.
var gmBackends = map[core.MetricRegistry]gometricslib.Registry{}

func newGoMetrics() core.MetricRegistry {
	back := gometricslib.NewRegistry()
	r, err := gmreg.NewGoMetricsMetricRegistry(back, "", "p", time.Second)
	if err != nil {
		panic(err)
	}
	gmBackends[r] = back
	return r
}

func dropGoMetrics(r core.MetricRegistry) {
	if back := gmBackends[r]; back != nil {
		back.UnregisterAll()
		delete(gmBackends, r)
	}
}

var calibReports = map[string]int{}
var calibExecs = map[string]int{}

// ---- the type table ----

func sampleOps(l func(any) core.Limit) []c17Op {
	return []c17Op{
		{"OnSample(success)", func(i any) { l(i).OnSample(0, 1e6, 5, false) }},
		{"OnSample(drop)", func(i any) { l(i).OnSample(0, 2e6, 5, true) }},
		{"EstimatedLimit", func(i any) { l(i).EstimatedLimit() }},
		{"NotifyOnChange", func(i any) { l(i).NotifyOnChange(func(int) {}) }},
		{"String", func(i any) { _ = fmt.Sprint(i) }},
	}
}

func asLimit(i any) core.Limit { return i.(core.Limit) }

func c17Types() []c17Type {
	bg := vctx.Background()
	var ts []c17Type
	// limits
	ts = append(ts, c17Type{name: "limit.AIMDLimit", mk: func() any { return limit.NewAIMDLimit("t", 4, 0.9, 1, nil) },
		ops: append(sampleOps(asLimit), c17Op{"BackOffRatio", func(i any) { i.(*limit.AIMDLimit).BackOffRatio() }})})
	ts = append(ts, c17Type{name: "limit.VegasLimit", mk: func() any {
		return limit.NewVegasLimitWithRegistry("t", 4, nil, 10, 1.0, nil, nil, nil, nil, nil, 2, nil, nil)
	},
		ops: append(sampleOps(asLimit), c17Op{"RTTNoLoad", func(i any) { i.(*limit.VegasLimit).RTTNoLoad() }})})
	// probing variants: with these settings every sample takes the probe branch (baseline swap / reset)
	ts = append(ts, c17Type{name: "limit.VegasLimit(probing)", mk: func() any {
		l := limit.NewVegasLimitWithRegistry("t", 2, nil, 10, 1.0, nil, nil, nil, nil, nil, 1, nil, nil)
		l.OnSample(0, 1e6, 5, false)
		return l
	}, ops: append(sampleOps(asLimit), c17Op{"RTTNoLoad", func(i any) { i.(*limit.VegasLimit).RTTNoLoad() }})})
	ts = append(ts, c17Type{name: "limit.GradientLimit(probing)", mk: func() any {
		l := limit.NewGradientLimitWithRegistry("t", 4, 1, 10, 1.0, functions.FixedQueueSizeFunc(2), 2.0, 1, nil, nil)
		l.OnSample(0, 1e6, 5, false)
		return l
	}, ops: append(sampleOps(asLimit), c17Op{"RTTNoLoad", func(i any) { i.(*limit.GradientLimit).RTTNoLoad() }})})
	ts = append(ts, c17Type{name: "limit.GradientLimit", mk: func() any {
		return limit.NewGradientLimitWithRegistry("t", 4, 1, 10, 1.0, functions.FixedQueueSizeFunc(2), 2.0, 3, nil, nil)
	}, ops: append(sampleOps(asLimit), c17Op{"RTTNoLoad", func(i any) { i.(*limit.GradientLimit).RTTNoLoad() }})})
	ts = append(ts, c17Type{name: "limit.Gradient2Limit", mk: func() any {
		g, _ := limit.NewGradient2Limit("t", 4, 10, 1, functions.FixedQueueSizeFunc(2), 1.0, 3, nil, nil)
		return g
	}, ops: sampleOps(asLimit)})
	ts = append(ts, c17Type{name: "limit.SettableLimit", mk: func() any { return limit.NewSettableLimit("t", 4, nil) },
		ops: append(sampleOps(asLimit), c17Op{"SetLimit", func(i any) { i.(*limit.SettableLimit).SetLimit(7) }})})
	ts = append(ts, c17Type{name: "limit.FixedLimit", mk: func() any { return limit.NewFixedLimit("t", 4, nil) }, ops: sampleOps(asLimit)})
	ts = append(ts, c17Type{name: "limit.WindowedLimit", mk: func() any {
		w, _ := limit.NewWindowedLimit("w", 1e8, 1e8, 10, 1, limit.NewAIMDLimit("t", 4, 0.9, 1, nil), nil)
		return w
	}, ops: []c17Op{
		{"OnSample(closing)", func(i any) { asLimit(i).OnSample(1e9, 1e6, 12, false) }},
		{"OnSample(drop)", func(i any) { asLimit(i).OnSample(1e9, 2e6, 12, true) }},
		{"EstimatedLimit", func(i any) { asLimit(i).EstimatedLimit() }},
		{"NotifyOnChange", func(i any) { asLimit(i).NotifyOnChange(func(int) {}) }},
		{"String", func(i any) { _ = fmt.Sprint(i) }},
	}})
	ts = append(ts, c17Type{name: "limit.TracedLimit", mk: func() any {
		return limit.NewTracedLimit(limit.NewAIMDLimit("t", 4, 0.9, 1, nil), limit.NoopLimitLogger{})
	},
		ops: sampleOps(asLimit)})
	// strategies
	simpleOps := func(acq func(any) (core.StrategyToken, bool), set func(any, int)) []c17Op {
		return []c17Op{
			{"TryAcquire+Release", func(i any) {
				if t, ok := acq(i); ok {
					t.Release()
				}
			}},
			{"SetLimit", func(i any) { set(i, 3) }},
			{"String", func(i any) { _ = fmt.Sprint(i) }},
		}
	}
	ts = append(ts, c17Type{name: "strategy.SimpleStrategy", mk: func() any { return strategy.NewSimpleStrategy(2) },
		ops: append(simpleOps(func(i any) (core.StrategyToken, bool) { return i.(*strategy.SimpleStrategy).TryAcquire(bg) }, func(i any, v int) { i.(*strategy.SimpleStrategy).SetLimit(v) }),
			c17Op{"GetLimit", func(i any) { i.(*strategy.SimpleStrategy).GetLimit() }}, c17Op{"GetBusyCount", func(i any) { i.(*strategy.SimpleStrategy).GetBusyCount() }})})
	ts = append(ts, c17Type{name: "strategy.PreciseStrategy", mk: func() any { return strategy.NewPreciseStrategy(2) },
		ops: append(simpleOps(func(i any) (core.StrategyToken, bool) { return i.(*strategy.PreciseStrategy).TryAcquire(bg) }, func(i any, v int) { i.(*strategy.PreciseStrategy).SetLimit(v) }),
			c17Op{"GetLimit", func(i any) { i.(*strategy.PreciseStrategy).GetLimit() }}, c17Op{"GetBusyCount", func(i any) { i.(*strategy.PreciseStrategy).GetBusyCount() }})})
	ts = append(ts, c17Type{name: "strategy.LookupPartitionStrategy", mk: func() any { return newStrategy("lookup", 2, nil) }, ops: []c17Op{
		{"TryAcquire(a)+Release", func(i any) {
			if t, ok := i.(*strategy.LookupPartitionStrategy).TryAcquire(ctxFor("a")); ok {
				t.Release()
			}
		}},
		{"TryAcquire(unknown)+Release", func(i any) {
			if t, ok := i.(*strategy.LookupPartitionStrategy).TryAcquire(ctxFor("zz")); ok {
				t.Release()
			}
		}},
		{"SetLimit", func(i any) { i.(*strategy.LookupPartitionStrategy).SetLimit(3) }},
		{"BusyCount+Limit", func(i any) { s := i.(*strategy.LookupPartitionStrategy); s.BusyCount(); s.Limit() }},
		{"BinBusyCount+BinLimit", func(i any) { s := i.(*strategy.LookupPartitionStrategy); s.BinBusyCount("a"); s.BinLimit("b") }},
		{"AddPartition", func(i any) {
			i.(*strategy.LookupPartitionStrategy).AddPartition("c", strategy.NewLookupPartitionWithMetricRegistry("c", 0.1, 1, core.EmptyMetricRegistryInstance))
		}},
		{"RemovePartition", func(i any) { i.(*strategy.LookupPartitionStrategy).RemovePartition("b") }},
		{"String", func(i any) { _ = fmt.Sprint(i) }},
	}})
	ts = append(ts, c17Type{name: "strategy.PredicatePartitionStrategy", mk: func() any { return newStrategy("predicate", 2, nil) }, ops: []c17Op{
		{"TryAcquire(a)+Release", func(i any) {
			if t, ok := i.(*strategy.PredicatePartitionStrategy).TryAcquire(ctxFor("a")); ok {
				t.Release()
			}
		}},
		{"TryAcquire(unknown)", func(i any) { i.(*strategy.PredicatePartitionStrategy).TryAcquire(ctxFor("zz")) }},
		{"SetLimit", func(i any) { i.(*strategy.PredicatePartitionStrategy).SetLimit(3) }},
		{"BusyCount+Limit", func(i any) { s := i.(*strategy.PredicatePartitionStrategy); s.BusyCount(); s.Limit() }},
		{"BinBusyCount+BinLimit", func(i any) { s := i.(*strategy.PredicatePartitionStrategy); s.BinBusyCount(0); s.BinLimit(0) }},
		{"AddPartition", func(i any) {
			i.(*strategy.PredicatePartitionStrategy).AddPartition(strategy.NewPredicatePartitionWithMetricRegistry("c", 0.0, matchKey("c"), core.EmptyMetricRegistryInstance))
		}},
		{"RemovePartitionsMatching", func(i any) { i.(*strategy.PredicatePartitionStrategy).RemovePartitionsMatching(ctxFor("b")) }},
		{"String", func(i any) { _ = fmt.Sprint(i) }},
	}})
	ts = append(ts, c17Type{name: "strategy.LookupPartition", mk: func() any {
		return strategy.NewLookupPartitionWithMetricRegistry("p", 0.5, 2, core.EmptyMetricRegistryInstance)
	}, ops: []c17Op{
		{"Acquire+Release", func(i any) { p := i.(*strategy.LookupPartition); p.Acquire(); p.Release() }},
		{"UpdateLimit", func(i any) { i.(*strategy.LookupPartition).UpdateLimit(4) }},
		{"BusyCount+Limit+IsLimitExceeded", func(i any) { p := i.(*strategy.LookupPartition); p.BusyCount(); p.Limit(); p.IsLimitExceeded() }},
		{"Name+Percent", func(i any) { p := i.(*strategy.LookupPartition); p.Name(); p.Percent() }},
		{"String", func(i any) { _ = i.(*strategy.LookupPartition).String() }},
	}})
	ts = append(ts, c17Type{name: "strategy.PredicatePartition", mk: func() any {
		return strategy.NewPredicatePartitionWithMetricRegistry("p", 0.5, matchKey("p"), core.EmptyMetricRegistryInstance)
	}, ops: []c17Op{
		{"Acquire+Release", func(i any) { p := i.(*strategy.PredicatePartition); p.Acquire(); p.Release() }},
		{"UpdateLimit", func(i any) { i.(*strategy.PredicatePartition).UpdateLimit(4) }},
		{"BusyCount+Limit+IsLimitExceeded", func(i any) { p := i.(*strategy.PredicatePartition); p.BusyCount(); p.Limit(); p.IsLimitExceeded() }},
		{"Name+Percent", func(i any) { p := i.(*strategy.PredicatePartition); p.Name(); p.Percent() }},
		{"String", func(i any) { _ = i.(*strategy.PredicatePartition).String() }},
	}})
	// limiters
	limOps := func() []c17Op {
		return []c17Op{
			{"Acquire+OnSuccess", func(i any) {
				if l, ok := i.(core.Limiter).Acquire(bg); ok {
					l.OnSuccess()
				}
			}},
			{"Acquire+OnDropped", func(i any) {
				if l, ok := i.(core.Limiter).Acquire(bg); ok {
					l.OnDropped()
				}
			}},
			{"Acquire+OnIgnore", func(i any) {
				if l, ok := i.(core.Limiter).Acquire(bg); ok {
					l.OnIgnore()
				}
			}},
			{"String", func(i any) { _ = fmt.Sprint(i) }},
		}
	}
	mkDefault := func(kind string) *limiter.DefaultLimiter {
		// window of 10 pre-filled so that completions may close it and update the limit
		l, err := limiter.NewDefaultLimiter(limit.NewAIMDLimit("t", 3, 0.9, 1, nil), 1, 1, 0, 10, newStrategy(kind, 3, nil), limit.NoopLimitLogger{}, core.EmptyMetricRegistryInstance)
		if err != nil {
			panic(err)
		}
		for k := 0; k < 10; k++ {
			if tok, ok := l.Acquire(vctx.Background()); ok {
				tok.OnSuccess()
			}
		}
		return l
	}
	ts = append(ts, c17Type{name: "limiter.DefaultLimiter(simple)", mk: func() any { return mkDefault("simple") },
		ops: append(limOps(), c17Op{"EstimatedLimit", func(i any) { i.(*limiter.DefaultLimiter).EstimatedLimit() }})})
	ts = append(ts, c17Type{name: "limiter.DefaultLimiter(lookup)", mk: func() any { return mkDefault("lookup") },
		ops: append(limOps(), c17Op{"EstimatedLimit", func(i any) { i.(*limiter.DefaultLimiter).EstimatedLimit() }})})
	ts = append(ts, c17Type{name: "limiter.BlockingLimiter", mk: func() any { return limiter.NewBlockingLimiter(mkDefault("precise"), time.Second, nil) }, ops: limOps()})
	ts = append(ts, c17Type{name: "limiter.DeadlineLimiter", mk: func() any {
		return limiter.NewDeadlineLimiter(mkDefault("precise"), time.Unix(2_000_000_000, 0), nil)
	}, ops: limOps()})
	ts = append(ts, c17Type{name: "limiter.QueueBlockingLimiter", mk: func() any {
		return limiter.NewQueueBlockingLimiterFromConfig(mkDefault("precise"), limiter.QueueLimiterConfig{MaxBacklogSize: 4, MaxBacklogTimeout: time.Second})
	}, ops: limOps()})
	// a contended blocking stack: limit 1, so one of the two callers goes through the waiting path
	mkTight := func() *limiter.DefaultLimiter {
		l, err := limiter.NewDefaultLimiter(limit.NewFixedLimit("t", 1, nil), 1e9, 1e9, 1, 10, strategy.NewPreciseStrategy(1), limit.NoopLimitLogger{}, core.EmptyMetricRegistryInstance)
		if err != nil {
			panic(err)
		}
		return l
	}
	ts = append(ts, c17Type{name: "limiter.BlockingLimiter(contended)", mk: func() any { return limiter.NewBlockingLimiter(mkTight(), 10*time.Millisecond, nil) }, ops: limOps()[:1]})
	ts = append(ts, c17Type{name: "limiter.QueueBlockingLimiter(contended)", mk: func() any {
		return limiter.NewQueueBlockingLimiterFromConfig(mkTight(), limiter.QueueLimiterConfig{MaxBacklogSize: 4, MaxBacklogTimeout: 10 * time.Millisecond})
	}, ops: limOps()[:1]})
	// the queue limiter's gauges polled by a registry thread while callers enter and leave the backlog
	// (the only token is held, so every caller is queued and leaves through its 10 ms timeout)
	type qGauged struct {
		l   core.Limiter
		reg *RecRegistry
	}
	ts = append(ts, c17Type{name: "limiter.QueueBlockingLimiter(backlog gauges)", mk: func() any {
		reg := NewRecRegistry()
		d := mkTight()
		if _, ok := d.Acquire(bg); !ok {
			panic("setup")
		}
		return &qGauged{limiter.NewQueueBlockingLimiterFromConfig(d, limiter.QueueLimiterConfig{MaxBacklogSize: 4, MaxBacklogTimeout: 10 * time.Millisecond,
			BacklogEvictDoneCtx: true, MetricRegistry: reg}), reg}
	}, ops: []c17Op{
		{"Acquire(queued, times out)", func(i any) { i.(*qGauged).l.Acquire(bg) }},
		{"poll gauges", func(i any) {
			r := i.(*qGauged).reg
			for _, k := range r.GaugeKeys() {
				r.Gauges[k]()
			}
		}},
		{"String", func(i any) { _ = fmt.Sprint(i.(*qGauged).l) }},
	}})
	// measurements
	measOps := func() []c17Op {
		return []c17Op{
			{"Add", func(i any) { i.(core.MeasurementInterface).Add(3) }},
			{"Get", func(i any) { i.(core.MeasurementInterface).Get() }},
			{"Reset", func(i any) { i.(core.MeasurementInterface).Reset() }},
			{"Update", func(i any) { i.(core.MeasurementInterface).Update(func(v float64) float64 { return v * 0.9 }) }},
			{"String", func(i any) { _ = fmt.Sprint(i) }},
		}
	}
	ts = append(ts, c17Type{name: "measurements.MinimumMeasurement", mk: func() any { return &measurements.MinimumMeasurement{} }, ops: measOps()})
	ts = append(ts, c17Type{name: "measurements.SingleMeasurement", mk: func() any { return &measurements.SingleMeasurement{} }, ops: measOps()})
	ts = append(ts, c17Type{name: "measurements.ExponentialAverageMeasurement", mk: func() any { return measurements.NewExponentialAverageMeasurement(3, 1) }, ops: measOps()})
	ts = append(ts, c17Type{name: "measurements.SimpleExponentialMovingAverage", mk: func() any { m, _ := measurements.NewSimpleExponentialMovingAverage(0.5); return m }, ops: measOps()[:4]})
	ts = append(ts, c17Type{name: "measurements.SimpleMovingVariance", mk: func() any { m, _ := measurements.NewSimpleMovingVariance(0.5, 0.5); return m }, ops: measOps()[:4]})
	ts = append(ts, c17Type{name: "measurements.WindowlessMovingPercentile", mk: func() any { m, _ := measurements.NewWindowlessMovingPercentile(0.5, 0.01, 0.5, 0.5); return m }, ops: measOps()[:4]})
	ts = append(ts, c17Type{name: "measurements.ImmutableSampleWindow", mk: func() any { return measurements.NewDefaultImmutableSampleWindow() }, ops: []c17Op{
		{"AddSample", func(i any) { i.(*measurements.ImmutableSampleWindow).AddSample(0, 5, 1) }},
		{"AddDroppedSample", func(i any) { i.(*measurements.ImmutableSampleWindow).AddDroppedSample(0, 1) }},
		{"getters+String", func(i any) {
			w := i.(*measurements.ImmutableSampleWindow)
			w.CandidateRTTNanoseconds()
			w.AverageRTTNanoseconds()
			w.MaxInFlight()
			w.SampleCount()
			w.DidDrop()
			w.StartTimeNanoseconds()
			_ = w.String()
		}},
	}})
	// registries
	// tag slices with spare capacity: an implementation that appends to a shared slice writes into the
	// same backing array from both threads
	spare := func(t string) []string { s := make([]string, 1, 8); s[0] = t; return s }
	regOps := func() []c17Op {
		return []c17Op{
			{"RegisterCount(t,tags...)+AddSample(tag)", func(i any) { i.(core.MetricRegistry).RegisterCount("t", spare("a:b")...).AddSample(1, spare("k:1")...) }},
			{"RegisterDistribution(u,tags...)+AddSample(tag)", func(i any) {
				i.(core.MetricRegistry).RegisterDistribution("u", spare("a:b")...).AddSample(1, spare("k:2")...)
			}},
			{"RegisterTiming(w,tags...)+AddSample(tag)", func(i any) {
				i.(core.MetricRegistry).RegisterTiming("w", spare("a:b")...).AddSample(1, spare("k:3")...)
			}},
			{"RegisterDistribution(x)+AddSample", func(i any) { i.(core.MetricRegistry).RegisterDistribution("x").AddSample(1) }},
			{"RegisterTiming(y)+AddSample", func(i any) { i.(core.MetricRegistry).RegisterTiming("y").AddSample(1) }},
			{"RegisterCount(x)+AddSample", func(i any) { i.(core.MetricRegistry).RegisterCount("x").AddSample(1) }},
			{"RegisterGauge", func(i any) { i.(core.MetricRegistry).RegisterGauge("g", func() (float64, bool) { return 1, true }) }},
			{"Start+Stop", func(i any) { r := i.(core.MetricRegistry); r.Start(); r.Stop() }},
		}
	}
	ts = append(ts, c17Type{name: "gometrics.MetricRegistry", mk: func() any { return newGoMetrics() }, ops: regOps(),
		done: func(i any) { dropGoMetrics(i.(core.MetricRegistry)) }})
	// one statsd client per process (creating and closing one costs milliseconds and goroutines); it
	// only receives datagrams and keeps no state the scenarios observe
	mkDD := func() any {
		if sharedDD == nil {
			client, err := dogstatsd.NewWithWriter(nullWriter{}, dogstatsd.WithoutTelemetry(), dogstatsd.WithoutClientSideAggregation())
			if err != nil {
				panic(err)
			}
			sharedDD = client
		}
		r, err := ddreg.NewMetricRegistryWithClient(sharedDD, "p", time.Second)
		if err != nil {
			panic(err)
		}
		return r
	}
	ts = append(ts, c17Type{name: "datadog.MetricRegistry", mk: mkDD, ops: regOps()})
	// polling variants: the registry is started and holds a gauge, the clock is eager, so the poller's
	// tick body runs concurrently with registration, sampling and Stop
	pollOps := func() []c17Op {
		o := regOps()
		o = []c17Op{o[0], o[3], o[6]} // a tagged and an untagged sampler, RegisterGauge
		return append(o, c17Op{"Stop", func(i any) { i.(core.MetricRegistry).Stop() }}, c17Op{"Start", func(i any) { i.(core.MetricRegistry).Start() }})
	}
	for _, base := range ts[len(ts)-2:] {
		base := base
		mkReg := base.mk
		ts = append(ts, c17Type{name: base.name + "(polling)", eager: true, pb: 1, ops: pollOps(), mk: func() any {
			r := mkReg().(core.MetricRegistry)
			r.RegisterGauge("g0", func() (float64, bool) { return 2, true })
			r.Start()
			return r
		}, done: func(i any) {
			i.(core.MetricRegistry).Stop()
			dropGoMetrics(i.(core.MetricRegistry))
		}})
	}
	// whole stacks reporting to a started go-metrics registry: the samplers of the limit, the strategy
	// and the partitions run inside the calls while the poller reads the gauges they registered
	for _, kind := range []string{"simple", "precise", "lookup", "predicate"} {
		kind := kind
		ts = append(ts, c17Type{name: "limiter.DefaultLimiter(" + kind + ")+gometrics(polling)", eager: true, pb: 1, mk: func() any {
			r := newGoMetrics()
			lim := limit.NewVegasLimitWithRegistry("t", 3, nil, 10, 1.0, nil, nil, nil, nil, nil, 30, nil, r)
			l, err := limiter.NewDefaultLimiter(lim, 1, 1, 0, 10, newStrategy(kind, 3, r), limit.NoopLimitLogger{}, r)
			if err != nil {
				panic(err)
			}
			for k := 0; k < 10; k++ {
				if tok, ok := l.Acquire(ctxFor("a")); ok {
					tok.OnSuccess()
				}
			}
			r.Start()
			return &c17Stack{l, r}
		}, done: func(i any) { i.(*c17Stack).reg.Stop(); dropGoMetrics(i.(*c17Stack).reg) }, ops: []c17Op{
			{"Acquire(a)+OnSuccess", func(i any) {
				if l, ok := i.(*c17Stack).l.Acquire(ctxFor("a")); ok {
					l.OnSuccess()
				}
			}},
			{"Acquire(b)+OnDropped", func(i any) {
				if l, ok := i.(*c17Stack).l.Acquire(ctxFor("b")); ok {
					l.OnDropped()
				}
			}},
			{"Acquire(unknown)+OnIgnore", func(i any) {
				if l, ok := i.(*c17Stack).l.Acquire(ctxFor("zz")); ok {
					l.OnIgnore()
				}
			}},
			{"EstimatedLimit+String", func(i any) { st := i.(*c17Stack); st.l.EstimatedLimit(); _ = fmt.Sprint(st.l) }},
			{"RegisterGauge", func(i any) { i.(*c17Stack).reg.RegisterGauge("late", func() (float64, bool) { return 1, true }) }},
		}})
	}
	// warmed variants: the same calls from a non-initial state (past warm-up windows, after a drop)
	var warmed []c17Type
	for _, ty := range ts {
		ty := ty
		if !strings.HasPrefix(ty.name, "limit.") && !strings.HasPrefix(ty.name, "measurements.") {
			continue
		}
		if strings.Contains(ty.name, "probing") || strings.Contains(ty.name, "ImmutableSampleWindow") {
			continue
		}
		base := ty.mk
		w := ty
		w.name = ty.name + "(warmed)"
		w.mk = func() any {
			inst := base()
			switch x := inst.(type) {
			case core.Limit:
				for k := 0; k < 4; k++ {
					x.OnSample(int64(k)*2e8, 1e6+int64(k)*1e5, 12, k == 2)
				}
			case core.MeasurementInterface:
				for k := 0; k < 6; k++ {
					x.Add(float64(3 + k))
				}
			}
			return inst
		}
		warmed = append(warmed, w)
	}
	return append(ts, warmed...)
}

// uncovered lists the exported methods of each instance type that no op name mentions.
func c17Uncovered(ts []c17Type) []string {
	var out []string
	for _, ty := range ts {
		if ty.eager {
			continue // started registries need the scheduler; their calls are those of the plain variants
		}
		inst := ty.mk()
		t := reflect.TypeOf(inst)
		names := ""
		for _, o := range ty.ops {
			names += " " + o.name
		}
		for m := 0; m < t.NumMethod(); m++ {
			mn := t.Method(m).Name
			if !strings.Contains(names, mn) && mn != "String" {
				out = append(out, ty.name+"."+mn)
			}
		}
	}
	sort.Strings(out)
	return out
}

// c17Triples: three threads, one call each (thorough tier, limiter stacks and registries).
func c17Triples(ty c17Type, pb int) *mc.Scenario {
	type triple struct{ a, b, c int }
	var ts []triple
	for i := range ty.ops {
		for j := i; j < len(ty.ops); j++ {
			for k := j; k < len(ty.ops); k++ {
				ts = append(ts, triple{i, j, k})
			}
		}
	}
	return &mc.Scenario{
		Name:        "C17/triples/" + ty.name,
		Params:      fmt.Sprintf("%d calls, %d unordered triples, three threads on one shared instance", len(ty.ops), len(ts)),
		Cfg:         vrt.Config{MaxSteps: 6000, Horizon: int64(time.Minute), EagerClock: ty.eager},
		MonitorOnce: true,
		Body: func(x *mc.Exec) {
			p := ts[vrt.Choose(len(ts))]
			inst := ty.mk()
			x.Aux = ty.ops[p.a].name + " || " + ty.ops[p.b].name + " || " + ty.ops[p.c].name
			a := vrt.Go(func() { ty.ops[p.a].do(inst) })
			b := vrt.Go(func() { ty.ops[p.b].do(inst) })
			cc := vrt.Go(func() { ty.ops[p.c].do(inst) })
			vrt.Join(a, b, cc)
			if ty.done != nil {
				ty.done(inst)
			}
			x.MarkConflict()
		},
		Post: c17Scenario(ty, pb).Post,
	}
}

func runC17(c *Ctx) {
	if !vrt.RaceMode {
		c.Out.Notes = append(c.Out.Notes, "binary built without -race: C17 cannot run")
		return
	}
	newRaceReports() // discard anything from start-up
	pb := c.Pick(2, 3)
	if c.Shard == 0 || c.replay != nil {
		for _, sc := range c17Calibration() {
			if c.replay != nil {
				continue
			}
			st := mc.Explore(sc, mc.Options{PreemptBound: -1, NoCache: true})
			c.addStats(st)
		}
		if c.replay == nil {
			c.Out.Notes = append(c.Out.Notes, fmt.Sprintf("calibration: locked %d/%d executions reported, unlocked %d/%d, order-dependent %d/%d",
				calibReports["locked"], calibExecs["locked"], calibReports["unlocked"], calibExecs["unlocked"], calibReports["order-dependent"], calibExecs["order-dependent"]))
			if calibReports["locked"] != 0 || calibReports["unlocked"] == 0 || calibReports["order-dependent"] == 0 {
				fmt.Fprintf(os.Stderr, "C17 calibration failed: %v of %v\n", calibReports, calibExecs)
				os.Exit(3)
			}
		}
	}
	types := c17Types()
	if c.Shard == 0 {
		c.Out.Notes = append(c.Out.Notes, "exported methods not covered by the call table: "+strings.Join(c17Uncovered(types), ", "))
	}
	for _, ty := range types {
		b := pb
		if ty.pb != 0 {
			b = ty.pb + c.Pick(0, 1)
			if strings.Contains(ty.name, "+gometrics") {
				b = ty.pb // whole stacks with a ticking poller: one preemption or tick (250 k executions each at two)
			}
		}
		c.Explore(c17Scenario(ty, b), mc.Options{PreemptBound: b, NoCache: true})
	}
	if c.Thorough() {
		for _, ty := range types {
			if ty.eager {
				continue // three callers plus a ticking poller: millions of executions per type; the pairs cover the poller
			}
			if strings.HasPrefix(ty.name, "limiter.") || strings.Contains(ty.name, "MetricRegistry") || strings.HasPrefix(ty.name, "strategy.Lookup") || strings.HasPrefix(ty.name, "strategy.PredicatePartitionStrategy") {
				c.Explore(c17Triples(ty, 2), mc.Options{PreemptBound: 2, NoCache: true})
			}
		}
	}
}
