package main

import (
	"fmt"
	"sort"
	"strings"

	"github.com/platinummonkey/go-concurrency-limits/core"
	"github.com/platinummonkey/go-concurrency-limits/limit"
	"github.com/platinummonkey/go-concurrency-limits/limiter"
	"github.com/platinummonkey/go-concurrency-limits/strategy"

	"verif/vrt"
	"verif/vrt/vctx"
)

// ---------------------------------------------------------------------------------------------
// Doubles. All of them are plain data touched only by the thread that holds the baton.

// ScriptLimit is a core.Limit whose estimate steps through a trajectory each time OnSample is
// called; it records every sample it receives.
type ScriptLimit struct {
	Traj    []int
	Pos     int
	Samples []SampleRec           `fp:"-"`
	OnEnter func(newEstimate int) // called at OnSample entry with the estimate that takes effect
	subs    []core.LimitChangeListener
}

// SampleRec is one OnSample call.
type SampleRec struct {
	Start    int64
	RTT      int64
	InFlight int
	Drop     bool
}

func (s SampleRec) String() string {
	return fmt.Sprintf("(start=%d rtt=%d inflight=%d drop=%v)", s.Start, s.RTT, s.InFlight, s.Drop)
}

func (l *ScriptLimit) EstimatedLimit() int { return l.Traj[l.Pos] }
func (l *ScriptLimit) NotifyOnChange(c core.LimitChangeListener) {
	l.subs = append(l.subs, c)
}
func (l *ScriptLimit) OnSample(start int64, rtt int64, inFlight int, drop bool) {
	vrt.Yield() // the algorithm is foreign code to the limiter: it may be preempted (no-op without a scheduler)
	l.Samples = append(l.Samples, SampleRec{start, rtt, inFlight, drop})
	if l.Pos+1 < len(l.Traj) {
		l.Pos++
	}
	if l.OnEnter != nil {
		l.OnEnter(l.Traj[l.Pos])
	}
	for _, s := range l.subs {
		s(l.Traj[l.Pos])
	}
}
func (l *ScriptLimit) String() string { return fmt.Sprintf("ScriptLimit%v@%d", l.Traj, l.Pos) }

// RecRegistry is a recording core.MetricRegistry.
type RecRegistry struct {
	Gauges   map[string]core.MetricSupplier
	GaugeSeq []string
	Samples  map[string][]float64
	Kinds    map[string]string
	Started  int
	Stopped  int
	Log      []string
}

func (r *RecRegistry) FingerprintSkip() {}
func (l *recListener) FingerprintSkip() {}

func NewRecRegistry() *RecRegistry {
	return &RecRegistry{Gauges: map[string]core.MetricSupplier{}, Samples: map[string][]float64{}, Kinds: map[string]string{}}
}

type recListener struct {
	r   *RecRegistry
	key string
}

func (l *recListener) AddSample(v float64, tags ...string) {
	l.r.Samples[l.key] = append(l.r.Samples[l.key], v)
	l.r.Log = append(l.r.Log, fmt.Sprintf("%s=%v", l.key, v))
}

func mkey(id string, tags []string) string {
	if len(tags) == 0 {
		return id
	}
	return id + "{" + strings.Join(tags, ",") + "}"
}

func (r *RecRegistry) reg(kind, id string, tags []string) core.MetricSampleListener {
	k := mkey(id, tags)
	r.Kinds[k] = kind
	return &recListener{r, k}
}
func (r *RecRegistry) RegisterDistribution(id string, tags ...string) core.MetricSampleListener {
	return r.reg("distribution", id, tags)
}
func (r *RecRegistry) RegisterTiming(id string, tags ...string) core.MetricSampleListener {
	return r.reg("timing", id, tags)
}
func (r *RecRegistry) RegisterCount(id string, tags ...string) core.MetricSampleListener {
	return r.reg("count", id, tags)
}
func (r *RecRegistry) RegisterGauge(id string, s core.MetricSupplier, tags ...string) {
	k := mkey(id, tags)
	if _, ok := r.Gauges[k]; !ok {
		r.GaugeSeq = append(r.GaugeSeq, k)
	}
	r.Gauges[k] = s
}
func (r *RecRegistry) Start() { r.Started++ }
func (r *RecRegistry) Stop()  { r.Stopped++ }

// Gauge reads a gauge by key prefix match (first registered key that starts with id).
func (r *RecRegistry) Gauge(id string) (float64, bool) {
	for _, k := range r.GaugeSeq {
		if k == id || strings.HasPrefix(k, id+"{") {
			v, ok := r.Gauges[k]()
			return v, ok
		}
	}
	return 0, false
}

// GaugeKeys returns sorted gauge keys.
func (r *RecRegistry) GaugeKeys() []string {
	ks := append([]string{}, r.GaugeSeq...)
	sort.Strings(ks)
	return ks
}

// ---------------------------------------------------------------------------------------------
// Strategy construction by kind.

type busyLimit interface {
	busy() int
	lim() int
}

type stratView struct {
	s    core.Strategy
	kind string
}

// Busy/Limit through the public getters of each strategy kind.
func (v stratView) Busy() int {
	switch s := v.s.(type) {
	case *strategy.SimpleStrategy:
		return s.GetBusyCount()
	case *strategy.PreciseStrategy:
		return s.GetBusyCount()
	case *strategy.LookupPartitionStrategy:
		return s.BusyCount()
	case *strategy.PredicatePartitionStrategy:
		return s.BusyCount()
	}
	return -1
}

func (v stratView) Limit() int {
	switch s := v.s.(type) {
	case *strategy.SimpleStrategy:
		return s.GetLimit()
	case *strategy.PreciseStrategy:
		return s.GetLimit()
	case *strategy.LookupPartitionStrategy:
		return s.Limit()
	case *strategy.PredicatePartitionStrategy:
		return s.Limit()
	}
	return -1
}

const (
	ctxKeyLookup = "lookup"
)

// newStrategy builds a strategy of the given kind with the given limit. Partitioned kinds get
// two partitions "a" (0.3 / matches key "a") and "b" (0.7 / matches key "b").
func newStrategy(kind string, lim int, reg core.MetricRegistry) core.Strategy {
	if reg == nil {
		reg = core.EmptyMetricRegistryInstance
	}
	switch kind {
	case "simple":
		return strategy.NewSimpleStrategyWithMetricRegistry(lim, reg)
	case "precise":
		return strategy.NewPreciseStrategyWithMetricRegistry(lim, reg)
	case "lookup":
		parts := map[string]*strategy.LookupPartition{
			"a": strategy.NewLookupPartitionWithMetricRegistry("a", 0.3, 1, reg),
			"b": strategy.NewLookupPartitionWithMetricRegistry("b", 0.7, 1, reg),
		}
		s, err := strategy.NewLookupPartitionStrategyWithMetricRegistry(parts, lookupKey, int32(lim), reg)
		if err != nil {
			panic(err)
		}
		return s
	case "predicate":
		parts := []*strategy.PredicatePartition{
			strategy.NewPredicatePartitionWithMetricRegistry("a", 0.5, matchKey("a"), reg),
			strategy.NewPredicatePartitionWithMetricRegistry("b", 0.5, matchKey("b"), reg),
		}
		s, err := strategy.NewPredicatePartitionStrategyWithMetricRegistry(parts, int32(lim), reg)
		if err != nil {
			panic(err)
		}
		return s
	}
	panic("unknown strategy kind " + kind)
}

type keyT string

const partKey = keyT("part")

func lookupKey(ctx vctx.Context) string {
	if v, ok := ctx.Value(partKey).(string); ok {
		return v
	}
	return ""
}

func matchKey(k string) func(ctx vctx.Context) bool {
	return func(ctx vctx.Context) bool {
		v, _ := ctx.Value(partKey).(string)
		return v == k
	}
}

func ctxFor(part string) vctx.Context {
	if part == "" {
		return vctx.Background()
	}
	return vctx.WithValue(vctx.Background(), partKey, part)
}

// newDefaultLimiter builds a DefaultLimiter over lim and strat with a 10-sample window,
// 1 ns RTT threshold and the given window times.
func newDefaultLimiter(lim core.Limit, strat core.Strategy, minWin, maxWin int64, reg core.MetricRegistry) *limiter.DefaultLimiter {
	return newDefaultLimiterRTT(lim, strat, minWin, maxWin, 1, reg)
}

// newDefaultLimiterRTT takes the minimum RTT threshold as well: with a threshold above every RTT of the
// scenario each OnSuccess takes the "too fast to be a sample" path.
func newDefaultLimiterRTT(lim core.Limit, strat core.Strategy, minWin, maxWin, minRTT int64, reg core.MetricRegistry) *limiter.DefaultLimiter {
	if reg == nil {
		reg = core.EmptyMetricRegistryInstance
	}
	l, err := limiter.NewDefaultLimiter(lim, minWin, maxWin, minRTT, 10, strat, limit.NoopLimitLogger{}, reg)
	if err != nil {
		panic(err)
	}
	return l
}

func complete(l core.Listener, outcome int) {
	switch outcome {
	case 0:
		l.OnSuccess()
	case 1:
		l.OnIgnore()
	default:
		l.OnDropped()
	}
}

var outcomeNames = []string{"success", "ignore", "dropped"}
