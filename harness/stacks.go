package main

import (
	"fmt"
	"reflect"
	"time"
	"unsafe"

	"github.com/platinummonkey/go-concurrency-limits/core"
	"github.com/platinummonkey/go-concurrency-limits/limit"
	"github.com/platinummonkey/go-concurrency-limits/limiter"
	"github.com/platinummonkey/go-concurrency-limits/patterns/pool"

	"verif/mc"
	"verif/vrt"
	"verif/vrt/vctx"
	"verif/vrt/vtime"
)

// ---------------------------------------------------------------------------------------------
// Recording delegate: a core.Limiter placed between a blocking wrapper and the DefaultLimiter. It
// appends to the runtime's event log (public-seam events only) and is otherwise transparent.

type widT string

const widKey = widT("waiter")

func waiterCtx(id int) vctx.Context { return vctx.WithValue(vctx.Background(), widKey, id) }

func waiterOf(ctx vctx.Context) int {
	if ctx == nil {
		return -1
	}
	if v, ok := ctx.Value(widKey).(int); ok {
		return v
	}
	return -1
}

type recDelegate struct {
	inner core.Limiter
	// Consulted counts delegate attempts (C13: "the delegate is not consulted").
	Consulted int
	// qsize samples the queue_size gauge (queue family) without a schedule point; -1 if unknown.
	qsize func() int
}

func (d *recDelegate) Acquire(ctx vctx.Context) (core.Listener, bool) {
	d.Consulted++
	l, ok := d.inner.Acquire(ctx)
	okI := 0
	if ok {
		okI = 1
	}
	vrt.LogEvent("deleg.acquire", "", waiterOf(ctx), okI)
	if !ok || l == nil {
		return l, ok
	}
	return &recListener2{inner: l, wid: waiterOf(ctx), d: d}, true
}

func (d *recDelegate) String() string { return "recDelegate" }

type recListener2 struct {
	inner core.Listener
	wid   int
	n     int
	d     *recDelegate
}

func (l *recListener2) done(kind int) {
	l.n++
	q := -1
	if l.d != nil && l.d.qsize != nil {
		q = l.d.qsize()
	}
	vrt.LogEvent("deleg.complete", "", l.wid, kind, l.n, q)
}
func (l *recListener2) OnSuccess() { l.inner.OnSuccess(); l.done(0) }
func (l *recListener2) OnIgnore()  { l.inner.OnIgnore(); l.done(1) }
func (l *recListener2) OnDropped() { l.inner.OnDropped(); l.done(2) }

// ---------------------------------------------------------------------------------------------

// stack is a limiter stack under test.
type stack struct {
	kind     string
	top      core.Limiter
	def      *limiter.DefaultLimiter
	strat    core.Strategy
	rec      *recDelegate
	reg      *RecRegistry
	limit    int
	deadline time.Time
	family   string // blocking | deadline | queue
	evict    bool
	timeout  time.Duration
	backlog  int
}

// stackOpts tune buildStack.
type stackOpts struct {
	strategy   string // simple|precise|lookup|predicate (default precise)
	timeout    time.Duration
	maxBacklog int
	deadlineIn time.Duration
	lim        core.Limit // default FixedLimit(limit)
	minRTT     int64      // minimum RTT threshold of the default limiter (default 1 ns)
}

var blockingKinds = []string{"blocking0", "blocking50", "deadline", "queue-fifo", "queue-lifo", "queue-fifo-evict", "queue-lifo-evict"}

// buildStack constructs the limiter stack of the given kind with the given concurrency limit.
func buildStack(kind string, lim int, o stackOpts) *stack {
	st := &stack{kind: kind, limit: lim, reg: NewRecRegistry()}
	if o.strategy == "" {
		o.strategy = "precise"
	}
	if o.maxBacklog == 0 {
		o.maxBacklog = 10
	}
	var l core.Limit = o.lim
	if l == nil {
		l = limit.NewFixedLimit("fixed", lim, nil)
	}
	mk := func() {
		st.strat = newStrategy(o.strategy, lim, nil)
		if o.minRTT == 0 {
			o.minRTT = 1
		}
		st.def = newDefaultLimiterRTT(l, st.strat, 1e6, 1e6, o.minRTT, nil)
		st.rec = &recDelegate{inner: st.def}
		st.rec.qsize = func() int {
			if !vrt.Active() {
				return -1
			}
			q := -1
			vrt.S.TryCtl(func() {
				if v, ok := st.queueSize(); ok {
					q = v
				}
			})
			return q
		}
	}
	qcfg := func(ord limiter.QueueOrdering, evict bool) limiter.QueueLimiterConfig {
		to := o.timeout
		if to == 0 {
			to = time.Second
		}
		st.timeout = to
		st.evict = evict
		st.backlog = o.maxBacklog
		return limiter.QueueLimiterConfig{Ordering: ord, MaxBacklogSize: o.maxBacklog, MaxBacklogTimeout: to,
			BacklogEvictDoneCtx: evict, MetricRegistry: st.reg}
	}
	switch kind {
	case "default":
		mk()
		st.top = st.def
		st.family = "default"
	case "blocking0":
		mk()
		st.top = limiter.NewBlockingLimiter(st.rec, 0, nil)
		st.family = "blocking"
	case "blocking50":
		mk()
		st.timeout = 50 * time.Millisecond
		if o.timeout != 0 {
			st.timeout = o.timeout
		}
		st.top = limiter.NewBlockingLimiter(st.rec, st.timeout, nil)
		st.family = "blocking"
	case "deadline":
		mk()
		d := o.deadlineIn
		if d == 0 {
			d = time.Second
		}
		st.deadline = vtime.Now().Add(d)
		st.top = limiter.NewDeadlineLimiter(st.rec, st.deadline, nil)
		st.family = "deadline"
	case "queue-fifo":
		mk()
		st.top = limiter.NewQueueBlockingLimiterFromConfig(st.rec, qcfg(limiter.OrderingFIFO, false))
		st.family = "queue"
	case "queue-lifo":
		mk()
		st.top = limiter.NewQueueBlockingLimiterFromConfig(st.rec, qcfg(limiter.OrderingLIFO, false))
		st.family = "queue"
	case "queue-fifo-evict":
		mk()
		st.top = limiter.NewQueueBlockingLimiterFromConfig(st.rec, qcfg(limiter.OrderingFIFO, true))
		st.family = "queue"
	case "queue-lifo-evict":
		mk()
		st.top = limiter.NewQueueBlockingLimiterFromConfig(st.rec, qcfg(limiter.OrderingLIFO, true))
		st.family = "queue"
	case "pool-random", "pool-fifo", "pool-lifo":
		mk()
		ord := map[string]pool.Ordering{"pool-random": pool.OrderingRandom, "pool-fifo": pool.OrderingFIFO, "pool-lifo": pool.OrderingLIFO}[kind]
		to := o.timeout
		if to == 0 {
			to = time.Second
		}
		st.timeout = to
		p, err := pool.NewPool(st.rec, ord, o.maxBacklog, to, nil, st.reg)
		if err != nil {
			panic(err)
		}
		st.top = p
		st.family = map[string]string{"pool-random": "blocking", "pool-fifo": "queue", "pool-lifo": "queue"}[kind]
	case "fixedpool-random", "fixedpool-fifo", "fixedpool-lifo":
		ord := map[string]pool.Ordering{"fixedpool-random": pool.OrderingRandom, "fixedpool-fifo": pool.OrderingFIFO, "fixedpool-lifo": pool.OrderingLIFO}[kind]
		to := o.timeout
		if to == 0 {
			to = time.Second
		}
		st.timeout = to
		p, err := pool.NewFixedPool("fp", ord, lim, 10, time.Millisecond, time.Millisecond, 1, o.maxBacklog, to, nil, st.reg)
		if err != nil {
			panic(err)
		}
		st.top = p
		st.family = map[string]string{"fixedpool-random": "blocking", "fixedpool-fifo": "queue", "fixedpool-lifo": "queue"}[kind]
		// the pool builds its own default limiter and strategy: find them reflectively
		if d, ok := findIn[*limiter.DefaultLimiter](p); ok {
			st.def = d
		}
		// place the recording delegate between the pool's wrapper and its default limiter (the pool
		// offers no constructor seam): the private core.Limiter field that holds the default limiter
		// is re-pointed at the recorder. Skipped silently if the layout changed.
		if st.def != nil {
			rec := &recDelegate{inner: st.def}
			if injectDelegate(p, st.def, rec) {
				st.rec = rec
				st.rec.qsize = func() int {
					if !vrt.Active() {
						return -1
					}
					q := -1
					vrt.S.TryCtl(func() {
						if v, ok := st.queueSize(); ok {
							q = v
						}
					})
					return q
				}
			}
		}
		if s, ok := findIn[core.Strategy](st.def); ok {
			st.strat = s
		}
	default:
		panic("unknown stack kind " + kind)
	}
	return st
}

// busy returns the strategy's busy count and limit through public getters.
func (st *stack) busy() (int, int) {
	v := stratView{s: st.strat}
	return v.Busy(), v.Limit()
}

// gauge returns the DefaultLimiter's private in-flight gauge if the field still exists.
func (st *stack) gauge() (int, bool) {
	g, ok := mc_FieldInt(st.def, "inFlight")
	return int(g), ok
}

// queueSize returns the queue_size gauge (queue family only).
func (st *stack) queueSize() (int, bool) {
	v, ok := st.reg.Gauge(core.MetricQueueSize)
	return int(v), ok
}

// ---------------------------------------------------------------------------------------------
// Reflective search for a value of type T inside an object graph (private fields included).

func findIn[T any](root any) (T, bool) {
	var zero T
	want := reflect.TypeOf((*T)(nil)).Elem()
	seen := map[uintptr]bool{}
	var walk func(v reflect.Value, depth int) (reflect.Value, bool)
	walk = func(v reflect.Value, depth int) (reflect.Value, bool) {
		if !v.IsValid() || depth > 8 {
			return reflect.Value{}, false
		}
		t := v.Type()
		if depth > 0 {
			if t == want || (want.Kind() == reflect.Interface && t.Kind() != reflect.Interface && t.Implements(want) && (t.Kind() == reflect.Ptr)) {
				if t.Kind() == reflect.Ptr && v.IsNil() {
					return reflect.Value{}, false
				}
				return v, true
			}
		}
		switch v.Kind() {
		case reflect.Ptr:
			if v.IsNil() || seen[v.Pointer()] {
				return reflect.Value{}, false
			}
			seen[v.Pointer()] = true
			return walk(v.Elem(), depth+1)
		case reflect.Interface:
			if v.IsNil() {
				return reflect.Value{}, false
			}
			return walk(v.Elem(), depth+1)
		case reflect.Struct:
			if skipPkg(t.PkgPath()) {
				return reflect.Value{}, false
			}
			for i := 0; i < v.NumField(); i++ {
				f := v.Field(i)
				if !f.CanInterface() && f.CanAddr() {
					f = reflect.NewAt(f.Type(), unsafe.Pointer(f.UnsafeAddr())).Elem()
				}
				if r, ok := walk(f, depth+1); ok {
					return r, true
				}
			}
		}
		return reflect.Value{}, false
	}
	r, ok := walk(reflect.ValueOf(root), 0)
	if !ok || !r.CanInterface() {
		return zero, false
	}
	out, ok := r.Interface().(T)
	return out, ok
}

func skipPkg(p string) bool {
	return len(p) >= 9 && p[:9] == "verif/vrt"
}

func mc_FieldInt(obj any, name string) (int64, bool) {
	if obj == nil {
		return 0, false
	}
	v := reflect.ValueOf(obj)
	if v.Kind() == reflect.Ptr && v.IsNil() {
		return 0, false
	}
	return mc.FieldInt(obj, name)
}

func fmtThreads(ts []*vrt.Thread) string {
	s := ""
	for _, t := range ts {
		s += fmt.Sprintf("%s:%s ", t, t.Pending())
	}
	return s
}

// fieldIface makes a (possibly unexported) field value usable as an interface value.
func fieldIface(f reflect.Value) any {
	if f.CanInterface() {
		return f.Interface()
	}
	if f.CanAddr() {
		return reflect.NewAt(f.Type(), unsafe.Pointer(f.UnsafeAddr())).Elem().Interface()
	}
	return nil
}

// injectDelegate finds, inside root's object graph, an interface-typed field whose dynamic value is
// target and stores repl there instead.
func injectDelegate(root any, target *limiter.DefaultLimiter, repl core.Limiter) bool {
	want := reflect.TypeOf((*core.Limiter)(nil)).Elem()
	seen := map[uintptr]bool{}
	var walk func(v reflect.Value, depth int) bool
	walk = func(v reflect.Value, depth int) bool {
		if !v.IsValid() || depth > 8 {
			return false
		}
		switch v.Kind() {
		case reflect.Ptr:
			if v.IsNil() || seen[v.Pointer()] {
				return false
			}
			seen[v.Pointer()] = true
			return walk(v.Elem(), depth+1)
		case reflect.Interface:
			if v.IsNil() {
				return false
			}
			if v.Type() == want && v.CanAddr() {
				f := reflect.NewAt(v.Type(), unsafe.Pointer(v.UnsafeAddr())).Elem()
				if d, ok := f.Interface().(*limiter.DefaultLimiter); ok && d == target {
					f.Set(reflect.ValueOf(repl))
					return true
				}
			}
			return walk(v.Elem(), depth+1)
		case reflect.Struct:
			if skipPkg(v.Type().PkgPath()) {
				return false
			}
			for i := 0; i < v.NumField(); i++ {
				if walk(v.Field(i), depth+1) {
					return true
				}
			}
		}
		return false
	}
	return walk(reflect.ValueOf(root), 0)
}
