package main

import (
	"time"

	"verif/mc"
)

// C11 — FIFO/LIFO service order for every constructor; see qdriver.go.

func init() { props["C11"] = runC11 }

func runC11(c *Ctx) {
	opt := mc.Options{PreemptBound: 0, DevBound: 0}
	depth := c.Pick(5, 6)
	arr := c.Pick(4, 5)
	for _, ct := range qCtors() {
		for _, evict := range []bool{false, true} {
			if evict && ct.name != "FromConfig(fifo)" && ct.name != "FromConfig(lifo)" && ct.name != "FromConfig(default)" {
				continue // only the config constructor can enable eviction
			}
			for _, lim := range []int{1, 2} {
				if lim == 2 && !c.Thorough() && ct.name != "FromConfig(lifo)" && ct.name != "FromConfig(fifo)" {
					continue
				}
				c.Explore(qdScenario(qdCase{prop: "C11", ctor: ct, limit: lim, maxBacklog: 10, timeout: 100 * time.Millisecond, evict: evict,
					maxArrive: arr, preArrive: 2, depth: depth}), opt)
			}
		}
	}
	// the enforced limit changes while callers wait: a release may free no capacity, and the order
	// must survive it
	for _, ct := range qCtors()[:3] {
		c.Explore(qdScenario(qdCase{prop: "C11", ctor: ct, limit: 2, maxBacklog: 10, timeout: 100 * time.Millisecond, maxArrive: 3, preArrive: 3,
			depth: c.Pick(5, 6), limitEvents: true}), opt)
	}
	for _, fp := range []string{"fifo", "lifo"} {
		c.Explore(qdScenario(qdCase{prop: "C11", fixedPool: fp, limit: 1, maxBacklog: 10, timeout: 100 * time.Millisecond, maxArrive: arr, preArrive: 2, depth: depth}), opt)
	}
	// two releases racing: order must still be respected (limit 2, both holders complete concurrently)
	for _, ct := range qCtors()[:2] {
		c.Explore(orderRaceScenario(ct, c.Pick(2, 3)), mc.Options{PreemptBound: c.Pick(2, 3)})
		// the head gives up (cancellation / timeout) while a release is being handed over
		c.Explore(giveUpRaceScenario(ct, 3, false), mc.Options{PreemptBound: c.Pick(2, 3)})
		// … with exactly one other caller left waiting, and a newcomer afterwards
		c.Explore(giveUpRaceScenario(ct, 2, false, true), mc.Options{PreemptBound: c.Pick(2, 3)})
		c.Explore(giveUpRaceScenario(ct, 2, true), mc.Options{PreemptBound: c.Pick(2, 3)})
	}
}
