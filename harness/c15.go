package main

import (
	"fmt"

	"verif/mc"
)

// C15 — the no-load RTT baseline is a recent true minimum and is refreshed by probing. Mode S with
// the random draws (probe jitter, probe countdown) as environment choices: after every sample the
// baseline is 0 (unset) or an RTT observed since some reset point k, it is the minimum of the RTTs
// since k, it does not exceed the current sample's RTT, and k is recent.

func init() { props["C15"] = runC15 }

type c15Aux struct {
	unsetRun int // consecutive samples after which the baseline was unset
	rtts     []int64
	age      map[int64]int // samples since the last occurrence of each RTT value (0 = the latest sample)
	maxEst   int           // largest estimate since the baseline last increased (Vegas staleness bound)
	lastB    int64
}

func c15Hooks() limHooks {
	return limHooks{
		name: "C15", level: -1, withZero: false, withHuge: false,
		newAux: func(li *limInst) any { return &c15Aux{maxEst: li.top.EstimatedLimit(), age: map[int64]int{}} },
		fpExtra: func(li *limInst) string {
			a := li.aux.(*c15Aux)
			// the oracle depends on the history only through the age of the last occurrence of each RTT
			// value (capped) and the largest estimate since the baseline last rose
			return fmt.Sprint(a.ages(), a.maxEst, a.lastB, a.unsetRun)
		},
		step: func(li *limInst, s sample, before, after int, pm string, t *mc.Tr) {
			cls := li.cfg.algo
			if pm != "" {
				t.Note("panic (reported by C04 only): " + fmt.Sprintf("OnSample(%s) panicked: %s", s, pm))
				return
			}
			a := li.aux.(*c15Aux)
			noRTT := s.rtt <= 0 // a drop without an RTT: counts as a sample, says nothing about latency
			if noRTT {
				a.rtts = append(a.rtts, -1)
			} else {
				a.rtts = append(a.rtts, s.rtt)
			}
			if len(a.rtts) > 40 {
				a.rtts = a.rtts[len(a.rtts)-40:]
			}
			for v := range a.age {
				if a.age[v] < 40 {
					a.age[v]++
				}
			}
			if !noRTT {
				a.age[s.rtt] = 0
			}
			n := len(a.rtts)
			b := li.rttNoLoad()
			if before > a.maxEst {
				a.maxEst = before
			}
			if after > a.maxEst {
				a.maxEst = after
			}
			defer func() {
				if b > a.lastB {
					a.maxEst = after
				}
				a.lastB = b
			}()
			if b == 0 {
				// unset is allowed by the statement
				// (how long it may stay unset is not bounded by the statement)
				a.unsetRun++
				return
			}
			a.unsetRun = 0
			if !noRTT && b > s.rtt {
				t.Fail(cls+"/baseline-above-sample", "baseline %d exceeds the RTT %d of the sample just processed", b, s.rtt)
				return
			}
			// staleness bound
			B := 1 << 30
			switch li.cfg.algo {
			case "vegas":
				B = li.cfg.probe*a.maxEst + 1
			case "gradient":
				if li.cfg.probe > 0 {
					B = 2 * li.cfg.probe
				}
			}
			ok := false
			min := int64(1) << 62
			for k := n - 1; k >= 0 && n-k <= B; k-- {
				if a.rtts[k] < 0 {
					continue // no RTT in that sample
				}
				if a.rtts[k] < min {
					min = a.rtts[k]
				}
				if min == b {
					ok = true
					break
				}
				if min < b {
					break
				}
			}
			if !ok {
				recent := a.rtts
				if len(recent) > 14 {
					recent = recent[len(recent)-14:]
				}
				t.Fail(cls+"/baseline-not-recent-minimum", "baseline %d is not the minimum of the RTTs since any reset point within the last %d samples (recent RTTs %v, estimate %d)", b, B, recent, after)
			}
		},
	}
}

func (a *c15Aux) ages() string {
	return fmt.Sprint(a.age[baseRTT/2], a.age[baseRTT], a.age[3*baseRTT], len(a.age))
}

func runC15(c *Ctx) {
	cfgs := []limCfg{
		{algo: "vegas", initial: 2, max: 6, smoothing: 1.0, probe: 1},
		{algo: "vegas", initial: 3, max: 6, smoothing: 1.0, probe: 2},
		{algo: "vegas", initial: 4, max: 6, smoothing: 0.5, probe: 2},
		{algo: "gradient", initial: 4, min: 1, max: 8, smoothing: 1.0, queue: "fixed2", tol: 2.0, probe: 2},
		{algo: "gradient", initial: 4, min: 1, max: 8, smoothing: 0.5, queue: "fixed2", tol: 2.0, probe: 3},
		{algo: "gradient", initial: 4, min: 1, max: 8, smoothing: 1.0, queue: "fixed2", tol: 2.0, probe: -1},
	}
	for _, cfg := range cfgs {
		c.runBFS(limModel(cfg, c15Hooks()), mc.BFSOptions{MaxDepth: c.Pick(8, 10), DevBound: -1, MaxStates: c.Pick(600000, 2500000)})
	}
}
