package main

import (
	"fmt"
	"math"
	"sort"
	"strings"

	"github.com/platinummonkey/go-concurrency-limits/core"
	"github.com/platinummonkey/go-concurrency-limits/strategy"
	"github.com/platinummonkey/go-concurrency-limits/strategy/matchers"

	"verif/mc"
	"verif/vrt"
	"verif/vrt/vctx"
)

// C03 — partitioned admission. Mode S: breadth-first search to a fixpoint over every
// acquire/release/SetLimit/AddPartition/RemovePartition sequence on the real strategies, compared
// step by step with a reference partition model; plus Mode T mixes checked for linearizability.

func init() { props["C03"] = runC03 }

// ---- reference model (written from the property statement) ----

type refBin struct {
	name    string
	frac    float64
	busy    int
	removed bool
	matches []string // request keys this bin matches (predicate) / its own name (lookup)
}

type refParts struct {
	lookup bool
	limit  int
	total  int
	bins   []*refBin // registration order
	unk    *refBin   // lookup only
}

func share(limit int, frac float64) int {
	return int(math.Max(1, math.Ceil(float64(limit)*frac)))
}

func (r *refParts) binFor(key string) *refBin {
	for _, b := range r.bins {
		if b.removed {
			continue
		}
		for _, m := range b.matches {
			if m == key {
				return b
			}
		}
	}
	if r.lookup {
		return r.unk
	}
	return nil
}

func (r *refParts) acquire(key string) (*refBin, bool) {
	b := r.binFor(key)
	if b == nil {
		return nil, false
	}
	if r.total < r.limit || b.busy < share(r.limit, b.frac) {
		r.total++
		b.busy++
		return b, true
	}
	return b, false
}

func (r *refParts) release(b *refBin) { r.total--; b.busy-- }

func (r *refParts) setLimit(v int) {
	if v < 1 {
		v = 1
	}
	r.limit = v
}

// ---- model over the real strategies ----

type c03Cfg struct {
	lookup  bool
	fracs   []float64
	overlap bool // predicate: bins match overlapping key sets
	limit   int
	dynamic bool // add/remove partitions in the alphabet
	fine    bool // SetLimit alphabet {16, 1000}: shares of fractions that are not multiples of 0.1
}

func (c c03Cfg) String() string {
	k := "predicate"
	if c.lookup {
		k = "lookup"
	}
	return fmt.Sprintf("%s fracs=%v limit=%d overlap=%v dynamic=%v fine-limits=%v", k, c.fracs, c.limit, c.overlap, c.dynamic, c.fine)
}

type c03Tok struct {
	tok core.StrategyToken
	bin *refBin
}

type c03State struct {
	cfg     c03Cfg
	lk      *strategy.LookupPartitionStrategy
	pr      *strategy.PredicatePartitionStrategy
	prParts []*strategy.PredicatePartition
	ref     *refParts
	held    []c03Tok
	added   bool
	removed bool
	keys    []string
}

var binNames = []string{"a", "b", "c"}

func c03New(cfg c03Cfg) *c03State {
	s := &c03State{cfg: cfg, ref: &refParts{lookup: cfg.lookup, limit: cfg.limit}}
	for i, f := range cfg.fracs {
		b := &refBin{name: binNames[i], frac: f, matches: []string{binNames[i]}}
		if cfg.overlap {
			b.matches = append(b.matches, "ab")
		}
		s.ref.bins = append(s.ref.bins, b)
	}
	s.keys = append([]string{}, binNames[:len(cfg.fracs)]...)
	if cfg.overlap {
		s.keys = append(s.keys, "ab")
	}
	s.keys = append(s.keys, "zz")
	if cfg.lookup {
		s.ref.unk = &refBin{name: "<unknown>", frac: 0}
		parts := map[string]*strategy.LookupPartition{}
		for i, f := range cfg.fracs {
			parts[binNames[i]] = strategy.NewLookupPartitionWithMetricRegistry(binNames[i], f, 1, core.EmptyMetricRegistryInstance)
		}
		st, err := strategy.NewLookupPartitionStrategyWithMetricRegistry(parts, lookupKey, int32(cfg.limit), core.EmptyMetricRegistryInstance)
		if err != nil {
			panic(err)
		}
		s.lk = st
	} else {
		for i, f := range cfg.fracs {
			b := s.ref.bins[i]
			s.prParts = append(s.prParts, strategy.NewPredicatePartitionWithMetricRegistry(binNames[i], f, matchAny(b.matches), core.EmptyMetricRegistryInstance))
		}
		st, err := strategy.NewPredicatePartitionStrategyWithMetricRegistry(append([]*strategy.PredicatePartition{}, s.prParts...), int32(cfg.limit), core.EmptyMetricRegistryInstance)
		if err != nil {
			panic(err)
		}
		s.pr = st
	}
	return s
}

func matchAny(keys []string) func(ctx vctx.Context) bool {
	ks := append([]string{}, keys...)
	return func(ctx vctx.Context) bool {
		v, _ := ctx.Value(partKey).(string)
		for _, k := range ks {
			if k == v {
				return true
			}
		}
		return false
	}
}

func (s *c03State) strat() core.Strategy {
	if s.lk != nil {
		return s.lk
	}
	return s.pr
}

type c03Op struct {
	kind string
	arg  string
	n    int
}

func (s *c03State) ops() []c03Op {
	var ops []c03Op
	for _, k := range s.keys {
		ops = append(ops, c03Op{kind: "acq", arg: k})
	}
	if s.added {
		ops = append(ops, c03Op{kind: "acq", arg: "c"})
	}
	seen := map[*refBin]bool{}
	for _, h := range s.held {
		if !seen[h.bin] {
			seen[h.bin] = true
			ops = append(ops, c03Op{kind: "rel", arg: h.bin.name})
		}
	}
	sets := []int{1, 2, 3, 5}
	if s.cfg.fine {
		sets = []int{16, 1000}
	}
	for _, v := range sets {
		if v != s.ref.limit {
			ops = append(ops, c03Op{kind: "set", n: v})
		}
	}
	ops = append(ops, c03Op{kind: "set", n: s.ref.limit}, c03Op{kind: "set", n: 0})
	if s.cfg.dynamic {
		if !s.added && len(s.cfg.fracs) < 3 {
			ops = append(ops, c03Op{kind: "add", arg: "0"})
			if room := 1 - sumF(s.cfg.fracs); room > 0.05 {
				ops = append(ops, c03Op{kind: "add", arg: fmt.Sprintf("%.1f", room)})
			}
		}
		if !s.removed {
			ops = append(ops, c03Op{kind: "remove", arg: "a"})
			if s.cfg.overlap {
				ops = append(ops, c03Op{kind: "remove", arg: "ab"}) // matches several bins: all of them go
			}
		}
	}
	return ops
}

func (o c03Op) String() string {
	switch o.kind {
	case "set":
		return fmt.Sprintf("SetLimit(%d)", o.n)
	case "acq":
		return "TryAcquire(" + o.arg + ")"
	case "rel":
		return "Release(bin " + o.arg + ")"
	case "add":
		return "AddPartition(c," + o.arg + ")"
	}
	return "RemovePartition(" + o.arg + ")"
}

func (s *c03State) kindName() string {
	if s.cfg.lookup {
		return "lookup"
	}
	return "predicate"
}

func (s *c03State) apply(o c03Op, t *mc.Tr) {
	kn := s.kindName()
	switch o.kind {
	case "acq":
		tok, ok := s.strat().TryAcquire(ctxFor(o.arg))
		bin, want := s.ref.acquire(o.arg)
		cls := "known"
		if bin == nil || bin == s.ref.unk {
			cls = "unknown-key"
		} else if bin.name == "c" {
			cls = "added-bin"
		}
		if ok != want {
			dir := "refused-with-room"
			if ok {
				dir = "admitted-over-share-and-total"
			}
			t.Fail(kn+"/admission/"+cls+"/"+dir, "TryAcquire(%s) = %v, reference says %v (total %d/%d, bin %v)", o.arg, ok, want, s.ref.total, s.ref.limit, binStr(bin, s.ref.limit))
			// keep the two in step so that later comparisons stay meaningful
			if want && !ok {
				s.ref.release(bin)
			}
			if ok && !want && bin != nil {
				s.ref.total++
				bin.busy++
			}
		}
		if ok && (tok == nil || !tok.IsAcquired()) || !ok && tok != nil && tok.IsAcquired() {
			t.Fail(kn+"/token-iff-ok", "token=%v ok=%v", tok, ok)
		}
		if ok {
			if bin == nil { // predicate admitted an unmatched request: account it nowhere
				bin = &refBin{name: "<none>"}
				s.ref.total++
				bin.busy++
			}
			s.held = append(s.held, c03Tok{tok, bin})
			t.Nontrivial = true
		}
	case "rel":
		for i, h := range s.held {
			if h.bin.name == o.arg {
				h.tok.Release()
				s.ref.release(h.bin)
				s.held = append(s.held[:i:i], s.held[i+1:]...)
				t.Nontrivial = true
				break
			}
		}
	case "set":
		s.strat().SetLimit(o.n)
		s.ref.setLimit(o.n)
		t.Nontrivial = true
	case "add":
		f := 0.0
		fmt.Sscanf(o.arg, "%g", &f)
		b := &refBin{name: "c", frac: f, matches: []string{"c"}}
		if s.lk != nil {
			p := strategy.NewLookupPartitionWithMetricRegistry("c", f, 7, core.EmptyMetricRegistryInstance)
			if !s.lk.AddPartition("c", p) {
				t.Fail(kn+"/add-refused", "AddPartition(c) returned false")
			}
		} else {
			p := strategy.NewPredicatePartitionWithMetricRegistry("c", f, matchAny(b.matches), core.EmptyMetricRegistryInstance)
			s.prParts = append(s.prParts, p)
			if !s.pr.AddPartition(p) {
				t.Fail(kn+"/add-refused", "AddPartition(c) returned false")
			}
		}
		s.ref.bins = append(s.ref.bins, b)
		s.added = true
		t.Nontrivial = true
	case "remove":
		var rb *refBin
		for _, b := range s.ref.bins {
			if b.name == o.arg && !b.removed {
				rb = b
			}
		}
		if s.lk != nil {
			n, ok := s.lk.RemovePartition(o.arg)
			if !ok || rb == nil || n != rb.busy {
				t.Fail(kn+"/remove-result", "RemovePartition(%s) = (%d,%v), reference busy %v", o.arg, n, ok, rb)
			}
		} else {
			rem, ok := s.pr.RemovePartitionsMatching(ctxFor(o.arg))
			want := 0
			for _, b := range s.ref.bins {
				for _, m := range b.matches {
					if m == o.arg && !b.removed {
						want++
					}
				}
			}
			if !ok || len(rem) != want {
				t.Fail(kn+"/remove-result", "RemovePartitionsMatching(%s) removed %d partitions (ok=%v), %d match", o.arg, len(rem), ok, want)
			}
			// every bin matching the key goes
			for _, b := range s.ref.bins {
				for _, m := range b.matches {
					if m == o.arg {
						b.removed = true
					}
				}
			}
		}
		if rb != nil {
			rb.removed = true
		}
		s.removed = true
		t.Nontrivial = true
	}
	s.compare(t, o)
}

func sumF(fs []float64) float64 {
	t := 0.0
	for _, f := range fs {
		t += f
	}
	return t
}

func binStr(b *refBin, limit int) string {
	if b == nil {
		return "<no bin>"
	}
	return fmt.Sprintf("%s busy %d share %d", b.name, b.busy, share(limit, b.frac))
}

// compare checks every public accessor against the reference.
func (s *c03State) compare(t *mc.Tr, o c03Op) {
	kn := s.kindName()
	after := "after-" + o.kind
	var busy, lim int
	if s.lk != nil {
		busy, lim = s.lk.BusyCount(), s.lk.Limit()
	} else {
		busy, lim = s.pr.BusyCount(), s.pr.Limit()
	}
	if busy != s.ref.total {
		t.Fail(kn+"/total-busy", "BusyCount()=%d, %d tokens are outstanding", busy, s.ref.total)
	}
	if lim != s.ref.limit {
		t.Fail(kn+"/total-limit", "Limit()=%d, reference %d", lim, s.ref.limit)
	}
	sum := 0
	idx := 0
	for _, b := range s.ref.bins {
		sum += b.busy
		if b.removed {
			continue
		}
		var bb, bl int
		var e1, e2 error
		if s.lk != nil {
			bb, e1 = s.lk.BinBusyCount(b.name)
			bl, e2 = s.lk.BinLimit(b.name)
		} else {
			bb, e1 = s.pr.BinBusyCount(idx)
			bl, e2 = s.pr.BinLimit(idx)
		}
		idx++
		if e1 != nil || e2 != nil {
			t.Fail(kn+"/bin-accessor", "bin %s: %v %v", b.name, e1, e2)
			continue
		}
		if bb != b.busy {
			t.Fail(kn+"/bin-busy", "bin %s busy=%d, %d of its tokens are outstanding", b.name, bb, b.busy)
		}
		if want := share(s.ref.limit, b.frac); bl != want {
			cls := "registered-bin"
			if b.name == "c" {
				cls = "added-bin"
			}
			t.Fail(kn+"/bin-share/"+cls+"/"+after, "bin %s (fraction %v) limit=%d, expected max(1,ceil(%d*%v))=%d", b.name, b.frac, bl, s.ref.limit, b.frac, want)
		}
	}
	if s.ref.unk != nil {
		sum += s.ref.unk.busy
		if u, ok := findNamed(s.lk, "unknownPartition"); ok {
			if b, ok := mc.FieldInt(u, "busy"); ok && int(b) != s.ref.unk.busy {
				t.Fail(kn+"/bin-busy", "unknown bin busy=%d, reference %d", b, s.ref.unk.busy)
			}
			if l, ok := mc.FieldInt(u, "limit"); ok && int(l) != 1 {
				t.Fail(kn+"/bin-share/unknown-bin", "unknown bin (fraction 0) limit=%d, expected max(1,ceil(%d*0))=1", l, s.ref.limit)
			}
		}
	}
	for _, h := range s.held {
		if h.bin.name == "<none>" {
			sum++
		}
	}
	if sum != s.ref.total {
		t.Fail(kn+"/bins-sum", "reference bins sum to %d, total %d", sum, s.ref.total)
	}
}

func (s *c03State) fp() string {
	var hb []string
	for _, h := range s.held {
		hb = append(hb, h.bin.name)
	}
	sort.Strings(hb)
	var rb []string
	for _, b := range s.ref.bins {
		rb = append(rb, fmt.Sprintf("%s:%d:%v", b.name, b.busy, b.removed))
	}
	u := ""
	if s.ref.unk != nil {
		u = fmt.Sprint(s.ref.unk.busy)
	}
	impl := ""
	if s.lk != nil {
		impl = mc.Fingerprint(s.lk)
	} else {
		impl = mc.Fingerprint(s.pr)
	}
	return fmt.Sprintf("%s|%d/%d|%s|%s|%s|%v%v", impl, s.ref.total, s.ref.limit, strings.Join(rb, ","), u, strings.Join(hb, ","), s.added, s.removed)
}

func c03Model(cfg c03Cfg) *mc.Model {
	return &mc.Model{
		Name:   "C03/" + map[bool]string{true: "lookup", false: "predicate"}[cfg.lookup],
		Params: cfg.String(),
		New:    func(t *mc.Tr) any { s := c03New(cfg); s.compare(t, c03Op{kind: "construct"}); return s },
		Ops: func(s any) []string {
			var out []string
			for _, o := range s.(*c03State).ops() {
				out = append(out, o.String())
			}
			return out
		},
		Apply: func(s any, k int, t *mc.Tr) {
			st := s.(*c03State)
			st.apply(st.ops()[k], t)
		},
		FP: func(s any) string { return s.(*c03State).fp() },
	}
}

func runC03(c *Ctx) {
	fracSets := [][]float64{{0.5, 0.5}, {0.3, 0.7}, {0, 1}, {0.1, 0.1}, {1.0}, {0.2}}
	depth := c.Pick(40, 60)
	for _, lookup := range []bool{true, false} {
		for _, fr := range fracSets {
			for _, lim := range []int{1, 2, 3, 4} {
				c.runBFS(c03Model(c03Cfg{lookup: lookup, fracs: fr, limit: lim}), mc.BFSOptions{MaxDepth: depth, DevBound: 0, MaxStates: 400000})
			}
			c.runBFS(c03Model(c03Cfg{lookup: lookup, fracs: fr, limit: 2, dynamic: true}), mc.BFSOptions{MaxDepth: c.Pick(40, 60), MaxStates: 400000})
		}
		if !lookup {
			c.runBFS(c03Model(c03Cfg{lookup: false, fracs: []float64{0.5, 0.5}, overlap: true, limit: 2}), mc.BFSOptions{MaxDepth: depth, MaxStates: 400000})
			c.runBFS(c03Model(c03Cfg{lookup: false, fracs: []float64{0.3, 0.3}, overlap: true, limit: 3, dynamic: true}), mc.BFSOptions{MaxDepth: c.Pick(40, 60), MaxStates: 400000})
		}
	}
	// fractions finer than a tenth at limits where ceil(limit x fraction) is not reached by coarser arithmetic
	for _, lookup := range []bool{true, false} {
		c.runBFS(c03Model(c03Cfg{lookup: lookup, fracs: []float64{0.0625, 0.33}, limit: 3, fine: true}), mc.BFSOptions{MaxDepth: c.Pick(6, 8), MaxStates: 400000})
	}
	c03Matchers(c)
	// Mode T: concurrent mixes on one strategy
	for _, lookup := range []bool{true, false} {
		for _, progs := range [][]string{{"a", "b", "R"}, {"aR", "bR"}, {"a", "z", "2"}, {"aR", "1", "b"}, {"a", "a"}, {"a", "a", "b"}, {"z", "z"}, {"b", "b", "a"}, {"a", "aR"},
			// partitions added and removed while requests are admitted and released
			{"R", "+", "c"}, {"c", "+c"}, {"a", "-", "a"}, {"R", "-", "b"}, {"a", "-", "2"}, {"-", "+", "a"}} {
			c.Explore(c03Concurrent(lookup, 2, progs), mc.Options{PreemptBound: c.Pick(3, 4), NoCache: true})
		}
	}
}

// c03Concurrent: threads run small programs on one strategy with one token pre-held in bin a:
// letters acquire for that key ('z' = unknown key), 'R' releases the thread's oldest token (thread 0
// starts with the pre-held one), digits SetLimit, '+' adds partition c (fraction 0.3), '-' removes
// partition a. Every execution's end state is compared with the
// reference applied in SOME order consistent with the results (brute force over permutations).
func c03Concurrent(lookup bool, limit int, progs []string) *mc.Scenario {
	cfg := c03Cfg{lookup: lookup, fracs: []float64{0.5, 0.5}, limit: limit}
	return &mc.Scenario{
		Name:   "C03/concurrent/" + map[bool]string{true: "lookup", false: "predicate"}[lookup],
		Params: fmt.Sprintf("limit=%d fracs=[0.5 0.5] pre-held=a progs=%v", limit, progs),
		Body: func(x *mc.Exec) {
			s := c03New(cfg)
			pre, ok := s.strat().TryAcquire(ctxFor("a"))
			if !ok {
				x.Fail("setup", "pre-acquire refused")
				return
			}
			type opRec struct {
				th   int
				op   byte
				ok   bool
				call int
				ret  int
				acq  int // release: call tick of the acquire that produced the token (0 = the pre-held one)
				n    int // removal: busy count returned (lookup) / partitions removed (predicate)
			}
			type tokRec struct {
				tok core.StrategyToken
				id  int
			}
			var recs []opRec
			tick := 0
			toks := make([][]tokRec, len(progs))
			toks[0] = append(toks[0], tokRec{pre, 0})
			var ths []*vrt.Thread
			for t := range progs {
				t := t
				ths = append(ths, vrt.GoL(fmt.Sprintf("P%d", t), func() {
					for i := 0; i < len(progs[t]); i++ {
						op := progs[t][i]
						tick++
						call := tick
						r := opRec{th: t, op: op, call: call}
						switch {
						case op == 'R':
							if len(toks[t]) == 0 {
								continue
							}
							r.acq = toks[t][0].id
							toks[t][0].tok.Release()
							toks[t] = toks[t][1:]
							r.ok = true
						case op >= '0' && op <= '9':
							s.strat().SetLimit(int(op - '0'))
							r.ok = true
						case op == '+':
							if s.lk != nil {
								r.ok = s.lk.AddPartition("c", strategy.NewLookupPartitionWithMetricRegistry("c", 0.3, 7, core.EmptyMetricRegistryInstance))
							} else {
								r.ok = s.pr.AddPartition(strategy.NewPredicatePartitionWithMetricRegistry("c", 0.3, matchAny([]string{"c"}), core.EmptyMetricRegistryInstance))
							}
						case op == '-':
							if s.lk != nil {
								r.n, r.ok = s.lk.RemovePartition("a")
							} else {
								var rem []*strategy.PredicatePartition
								rem, r.ok = s.pr.RemovePartitionsMatching(ctxFor("a"))
								r.n = len(rem)
							}
						default:
							tok, ok := s.strat().TryAcquire(ctxFor(string(op)))
							r.ok = ok
							if ok {
								toks[t] = append(toks[t], tokRec{tok, call})
							}
						}
						tick++
						r.ret = tick
						recs = append(recs, r)
					}
				}))
			}
			vrt.Join(ths...)
			// brute-force linearizability: some permutation respecting real-time order reproduces all results
			n := len(recs)
			used := make([]bool, n)
			var order []int
			binOf := map[int]int{0: 0} // acquire tick -> index of the bin it was charged to in that linearization (-1 = unknown bin)
			var try func(r *refParts) bool
			mkref := func() *refParts {
				r := &refParts{lookup: lookup, limit: limit, unk: &refBin{name: "<unknown>"}}
				if !lookup {
					r.unk = nil
				}
				r.bins = []*refBin{{name: "a", frac: 0.5, matches: []string{"a"}, busy: 1}, {name: "b", frac: 0.5, matches: []string{"b"}}}
				r.total = 1
				return r
			}
			clone := func(r *refParts) *refParts {
				c := *r
				c.bins = nil
				for _, b := range r.bins {
					bb := *b
					c.bins = append(c.bins, &bb)
				}
				if r.unk != nil {
					u := *r.unk
					c.unk = &u
				}
				return &c
			}
			var final *refParts
			// endMatches: the real strategy's end state is the one this linearization predicts (several
			// orders may explain the results yet charge different bins: any one that also explains the end
			// state will do)
			endMatches := func(r *refParts) bool {
				var busy int
				if s.lk != nil {
					busy = s.lk.BusyCount()
				} else {
					busy = s.pr.BusyCount()
				}
				if busy != r.total {
					return false
				}
				live := 0
				for _, b := range r.bins {
					if b.removed {
						continue
					}
					var bb int
					if s.lk != nil {
						bb, _ = s.lk.BinBusyCount(b.name)
					} else {
						bb, _ = s.pr.BinBusyCount(live)
					}
					live++
					if bb != b.busy {
						return false
					}
				}
				return true
			}
			var anyOrder *refParts
			try = func(r *refParts) bool {
				if len(order) == n {
					if anyOrder == nil {
						anyOrder = r
					}
					if !endMatches(r) {
						return false
					}
					final = r
					return true
				}
				for i := 0; i < n; i++ {
					if used[i] {
						continue
					}
					// real-time order: i may go next only if no unused op returned before i was called
					okRT := true
					for j := 0; j < n; j++ {
						if !used[j] && j != i && recs[j].ret < recs[i].call {
							okRT = false
						}
					}
					if !okRT {
						continue
					}
					c := clone(r)
					op := recs[i].op
					good := true
					switch {
					case op == 'R':
						bi, known := binOf[recs[i].acq]
						if !known {
							good = false // released before its acquire in this order
							break
						}
						b := c.unk
						if bi >= 0 {
							b = c.bins[bi]
						}
						if b == nil || b.busy == 0 {
							good = false
						} else {
							c.release(b)
						}
					case op >= '0' && op <= '9':
						c.setLimit(int(op - '0'))
					case op == '+':
						exists := false
						for _, b := range c.bins {
							if b.name == "c" && !b.removed {
								exists = true
							}
						}
						if lookup {
							good = recs[i].ok == !exists
						} else {
							good = recs[i].ok
						}
						if good && recs[i].ok {
							c.bins = append(c.bins, &refBin{name: "c", frac: 0.3, matches: []string{"c"}})
						}
					case op == '-':
						var rb *refBin
						for _, b := range c.bins {
							if b.name == "a" && !b.removed {
								rb = b
							}
						}
						switch {
						case rb == nil:
							good = !recs[i].ok
						case lookup:
							good = recs[i].ok && recs[i].n == rb.busy
						default:
							good = recs[i].ok && recs[i].n == 1
						}
						if good && rb != nil {
							rb.removed = true
						}
					default:
						b, ok := c.acquire(string(op))
						good = ok == recs[i].ok
						if good && ok {
							bi := -1
							for k, bb := range c.bins {
								if bb == b {
									bi = k
								}
							}
							binOf[recs[i].call] = bi
						}
					}
					if !good {
						continue
					}
					used[i] = true
					order = append(order, i)
					if try(c) {
						return true
					}
					used[i] = false
					order = order[:len(order)-1]
					if op != 'R' && op != '+' && op != '-' && !(op >= '0' && op <= '9') {
						delete(binOf, recs[i].call)
					}
				}
				return false
			}
			res := ""
			for _, r := range recs {
				res += fmt.Sprintf("%d%c%v ", r.th, r.op, r.ok)
			}
			x.Observe("%s", res)
			x.MarkConflict()
			if !try(mkref()) {
				if anyOrder == nil {
					x.Fail("not-linearizable", "no sequential order of the partition model explains the results: %s", res)
					return
				}
				final = anyOrder // the results are explained, the end state is not: report the differences below
			}
			// exact bins at the end
			s.ref = final
			var busy int
			if s.lk != nil {
				busy = s.lk.BusyCount()
			} else {
				busy = s.pr.BusyCount()
			}
			if busy != final.total {
				x.Fail("total-busy", "BusyCount()=%d, reference %d (%s)", busy, final.total, res)
			}
			live := 0
			for _, b := range final.bins {
				if b.removed {
					continue
				}
				var bb int
				if s.lk != nil {
					bb, _ = s.lk.BinBusyCount(b.name)
				} else {
					bb, _ = s.pr.BinBusyCount(live)
				}
				live++
				if bb != b.busy {
					x.Fail("bin-busy", "bin %s busy=%d, reference %d (%s)", b.name, bb, b.busy, res)
				}
			}
		},
	}
}

// c03Matchers enumerates the bundled request-to-partition mappings (strategy/matchers) completely
// and checks that a lookup strategy built without a lookup function charges by the documented
// context key.
func c03Matchers(c *Ctx) {
	name := "C03/matchers"
	params := "StringPredicateMatcher x case-insensitivity x context values; DefaultStringLookupFunc; default lookup function of the lookup strategy"
	if c.replay != nil || (c.only != "" && !strings.Contains(name, c.only)) {
		if c.replay == nil || c.replay.Scenario != name {
			return
		}
	}
	if c.replay == nil && (!c.Mine() || c.expired()) {
		return
	}
	st := &mc.BFSStats{Model: name, Params: params, SigCounts: map[string]int{}, Exhaustive: true, Fixpoint: true, Depth: 1, MaxDepth: 1}
	fail := func(sig, format string, a ...any) {
		st.SigCounts[sig]++
		if st.SigCounts[sig] == 1 {
			st.Violations = append(st.Violations, &mc.Violation{Scenario: name, Params: params, Failures: []mc.Failure{{Sig: sig, Msg: fmt.Sprintf(format, a...)}}})
		}
	}
	values := []any{nil, "a", "A", "b", "", 7}
	states := map[string]bool{}
	for _, match := range []string{"a", "A", "b", ""} {
		for _, ci := range []bool{false, true} {
			f := matchers.StringPredicateMatcher(match, ci)
			for _, v := range values {
				ctx := vctx.Background()
				if v != nil {
					ctx = vctx.WithValue(ctx, matchers.StringPredicateContextKey, v)
				}
				got := f(ctx)
				sv, isStr := v.(string)
				want := isStr && (sv == match || (ci && strings.EqualFold(sv, match)))
				st.Transitions++
				st.Nontrivial++
				states[fmt.Sprint(match, ci, v, got)] = true
				if got != want {
					fail("matchers/string-predicate", "StringPredicateMatcher(%q, caseInsensitive=%v) on context value %#v = %v, want %v", match, ci, v, got, want)
				}
			}
		}
	}
	for _, v := range values {
		ctx := vctx.Background()
		if v != nil {
			ctx = vctx.WithValue(ctx, matchers.LookupPartitionContextKey, v)
		}
		got := matchers.DefaultStringLookupFunc(ctx)
		want, _ := v.(string)
		st.Transitions++
		states[fmt.Sprint("lookup", v, got)] = true
		if got != want {
			fail("matchers/default-lookup", "DefaultStringLookupFunc on context value %#v = %q, want %q", v, got, want)
		}
	}
	// a lookup strategy without a lookup function charges by LookupPartitionContextKey
	parts := map[string]*strategy.LookupPartition{
		"a": strategy.NewLookupPartitionWithMetricRegistry("a", 0.5, 1, core.EmptyMetricRegistryInstance),
		"b": strategy.NewLookupPartitionWithMetricRegistry("b", 0.5, 1, core.EmptyMetricRegistryInstance),
	}
	s, err := strategy.NewLookupPartitionStrategyWithMetricRegistry(parts, nil, 2, core.EmptyMetricRegistryInstance)
	if err != nil {
		panic(err)
	}
	for _, k := range []string{"a", "b", "a"} {
		s.TryAcquire(vctx.WithValue(vctx.Background(), matchers.LookupPartitionContextKey, k))
		st.Transitions++
	}
	ba, _ := s.BinBusyCount("a")
	bb, _ := s.BinBusyCount("b")
	states[fmt.Sprint("default-lookup-strategy", ba, bb)] = true
	if ba != 1 || bb != 1 || s.BusyCount() != 2 {
		fail("matchers/default-lookup-strategy", "requests a,b,a at limit 2 (shares 1/1) with the default lookup function: bins a=%d b=%d total=%d, want 1/1/2", ba, bb, s.BusyCount())
	}
	st.States = len(states)
	st.Samples = append(st.Samples, []mc.Step{{Lbl: `StringPredicateMatcher("a", true) on value "A"`}})
	if c.replay != nil {
		for _, v := range st.Violations {
			fmt.Printf("  FAIL [%s] %s\n", v.Failures[0].Sig, v.Failures[0].Msg)
		}
		return
	}
	c.AddBFS(st)
}
