package main

import (
	"fmt"
	"verif/mc"
)

// C07 — growth is demand-gated and healthy saturation always recovers the limit. Mode S over the
// reachable states of all four algorithms (histories include drops and zero RTTs): app-limited
// samples never raise the estimate; from every newly reached state a run of saturated, drop-free
// samples at the no-load RTT brings the estimate to within one of its ceiling within N samples.

func init() { props["C07"] = runC07 }

func c07N(li *limInst) int {
	c := li.cfg
	s := c.smoothing
	if s <= 0 {
		s = 1
	}
	switch c.algo {
	case "vegas":
		p := c.probe
		if p < 0 {
			p = 0
		}
		return int(4*float64(c.ceiling(0))/s) + 4*p*c.ceiling(0) + 16
	case "gradient":
		return 4*c.ceiling(0) + 16
	case "gradient2":
		return 8*c.longWin + int(4*float64(c.ceiling(0))/s) + 40
	}
	return 8
}

func c07Hooks(level int) limHooks {
	return limHooks{
		name: "C07", level: level, withZero: true, withHuge: false,
		step: func(li *limInst, s sample, before, after int, pm string, t *mc.Tr) {
			cls := li.cfg.algo
			if pm != "" {
				t.Note("panic (reported by C04 only): " + fmt.Sprintf("OnSample(%s) panicked: %s", s, pm))
				return
			}
			if s.drop {
				return
			}
			app := 2*s.inflight < before
			if li.cfg.algo == "aimd" {
				app = s.inflight < before
			}
			if app && after > before {
				sub := "general"
				if li.cfg.algo == "gradient" && before < li.cfg.queueAt(before) {
					sub = "estimate-below-queue-allowance"
				}
				t.Fail(cls+"/app-limited-growth/"+sub, "non-drop sample %s with in-flight below the demand threshold raised the estimate %d -> %d", s, before, after)
			}
		},
		probe: func(fresh func() *limInst, t *mc.Tr) {
			li := fresh()
			cfg := li.cfg
			rtt := li.rttNoLoad()
			if rtt <= 0 {
				rtt = baseRTT
			}
			start := li.top.EstimatedLimit()
			if cfg.algo == "aimd" {
				// up by the increment on every saturated sample
				prev := start
				for i := 0; i < 4; i++ {
					if pm := li.apply(sample{rtt: rtt, inflight: 2*prev + 1}); pm != "" {
						t.Note("panic (reported by C04 only): " + fmt.Sprintf("healthy run panicked: %s", pm))
						return
					}
					cur := li.top.EstimatedLimit()
					if cfg.incr > 0 && cur != prev+cfg.incr || cfg.incr <= 0 && cur <= prev {
						// (with no increment configured the constructor chooses one: it must at least grow)
						t.Fail("aimd/healthy-increment", "saturated drop-free sample moved the limit %d -> %d, configured increment %d", prev, cur, cfg.incr)
						return
					}
					prev = cur
				}
				return
			}
			n := c07N(li)
			target := cfg.max - 1 // once an update has happened the estimate is capped by the configured maximum
			prev := start
			best := start
			probeLimited := cfg.algo == "gradient" && cfg.probe > 0 && cfg.probe*cfg.queueAt(cfg.max) <= cfg.max
			raised := false
			lastProbe := -1
			for i := 0; i < n; i++ {
				if cfg.algo == "gradient" && cfg.probe >= 2 && i == 2*cfg.probe+2 && !raised && start < target {
					// probes are at least one probe interval apart, so among any 2 x interval + 2 healthy
					// samples some are ordinary ones and must have raised the estimate: otherwise the state is stuck
					t.Fail("gradient/stuck", "%d saturated drop-free samples at rtt=%d never raised the estimate above %d (ceiling %d, probe interval %d)", i, rtt, start, cfg.ceiling(0), cfg.probe)
					return
				}
				infl := 2*cfg.ceiling(0) + 1
				if pm := li.apply(sample{rtt: rtt, inflight: infl}); pm != "" {
					t.Note("panic (reported by C04 only): " + fmt.Sprintf("healthy run panicked: %s", pm))
					return
				}
				cur := li.top.EstimatedLimit()
				if cfg.algo == "gradient" && (li.rttNoLoad() == 0 || (cur < prev+cfg.queueAt(prev) && cur < cfg.max)) {
					// the sample did not grow the estimate by the allowance: that is what a probe looks like
					// (it may cut the limit, reset the baseline, or do nothing visible). Probes are at least
					// one probe interval apart; anything more frequent is a healthy sample that failed to grow
					if cfg.probe < 0 {
						t.Fail("gradient/healthy-increment", "healthy saturated sample moved the estimate %d -> %d with probing disabled, expected at least +%d (queue allowance) up to the ceiling %d", prev, cur, cfg.queueAt(prev), cfg.max)
					} else if lastProbe >= 0 && i-lastProbe < cfg.probe {
						t.Fail("gradient/healthy-increment", "healthy saturated samples %d and %d of the run both failed to grow the estimate (%d -> %d), probes are at least %d samples apart; expected at least +%d (queue allowance) up to the ceiling %d",
							lastProbe, i, prev, cur, cfg.probe, cfg.queueAt(prev), cfg.max)
					}
					lastProbe = i
					prev = cur
					continue
				}
				if cur > prev {
					raised = true
				}
				if cur > best {
					best = cur
				}
				prev = cur
				if best >= target {
					break
				}
			}
			if best < target && !probeLimited {
				t.Fail(cfg.algo+"/no-recovery", "%d saturated drop-free samples at rtt=%d moved the estimate from %d to at most %d; ceiling is %d", n, rtt, start, best, cfg.ceiling(0))
			}
		},
	}
}

// c07Win is the ghost state of the windowed variants: what the wrapper has been fed since its
// delegate was last updated.
type c07Win struct {
	calls   int
	maxInfl int
	drop    bool
}

// c07WindowedHooks: the demand gate seen through the windowed wrapper. When the wrapper hands a
// window to the algorithm and no sample fed since the previous hand-over had an in-flight count of
// at least half the estimate (and none was a drop), the estimate must not rise: idle periods cannot
// inflate the limit, however the window is aggregated.
func c07WindowedHooks(level int) limHooks {
	return limHooks{
		name: "C07", level: level, withZero: false, withHuge: false,
		newAux:  func(li *limInst) any { return &c07Win{} },
		fpExtra: func(li *limInst) string { a := li.aux.(*c07Win); return fmt.Sprint(a.maxInfl, a.drop) },
		step: func(li *limInst, s sample, before, after int, pm string, t *mc.Tr) {
			a := li.aux.(*c07Win)
			if pm != "" || li.counting == nil {
				return
			}
			if s.inflight > a.maxInfl {
				a.maxInfl = s.inflight
			}
			a.drop = a.drop || s.drop
			if li.counting.Calls == a.calls {
				return // no hand-over during this sample
			}
			idle := !a.drop && 2*a.maxInfl < before
			if li.cfg.algo == "aimd" {
				idle = !a.drop && a.maxInfl < before
			}
			if idle && after > before {
				t.Fail(li.cfg.algo+"+windowed/app-limited-growth", "a window whose samples had at most %d in flight raised the estimate %d -> %d (closing sample %s)", a.maxInfl, before, after, s)
			}
			a.calls, a.maxInfl, a.drop = li.counting.Calls, 0, false
		},
	}
}

func runC07(c *Ctx) {
	// behind the windowed wrapper: estimates large enough for a closing sample (in-flight > 10) to be idle
	for _, cfg := range []limCfg{
		{algo: "gradient", wrapper: "windowed", initial: 50, min: 1, max: 100, smoothing: 1.0, queue: "fixed2", tol: 2.0, probe: -1},
		{algo: "gradient2", wrapper: "windowed", initial: 50, min: 1, max: 100, smoothing: 1.0, queue: "fixed2", longWin: 3},
		{algo: "vegas", wrapper: "windowed", initial: 50, max: 100, smoothing: 1.0, probe: 30},
	} {
		c.runBFS(limModel(cfg, c07WindowedHooks(0)), mc.BFSOptions{MaxDepth: 6, DevBound: c.Pick(1, 2), MaxStates: 2000000})
	}
	level := c.Pick(0, 1)
	depth := c.Pick(6, 7)
	for _, cfg := range limGrid(1) {
		if cfg.initial > 100 || (cfg.algo == "vegas" && cfg.probe < 4) {
			continue // vegas with a probe multiplier below 4 probes on every sample at small estimates (outside C07's domain)
		}
		c.runBFS(limModel(cfg, c07Hooks(level)), mc.BFSOptions{MaxDepth: depth, DevBound: c.Pick(1, 2), MaxStates: c.Pick(300000, 3000000)})
	}
}
