package main

import (
	"fmt"
	"github.com/platinummonkey/go-concurrency-limits/core"
	"time"

	"verif/mc"
	"verif/vrt"
	"verif/vrt/vctx"
	"verif/vrt/vtime"
)

// C13 — timeouts, deadlines and cancellation bound every blocked Acquire. Mode S over instants on
// the lazy virtual clock: a grid of arrival / bound / cancel / release instants is enumerated with
// harness choices, simultaneous expiries fire in every order, and the instant at which the caller
// returns is compared with the bound computed from the grid point. The queue limiter's bounds are
// additionally exercised by the queue driver (qdriver.go, events T and X).

func init() { props["C13"] = runC13 }

type c13Expect struct {
	kind               string
	ta, d, tc, tr      int64 // ms; -1 = none
	returned           bool
	granted            bool
	retClock           int64
	consulted          int
	busyBefore, busyAt int
	desc               string
	ignoreCtx          bool
	// follow-up caller (arrives after the first one has returned, the capacity is still held)
	follow              bool
	ta2, bound2, ret2   int64
	returned2, granted2 bool
}

const ms = int64(time.Millisecond)

// cofire: wake-ups due at the same instant (arrival, cancellation, release, poll timeout) are concurrent —
// the woken threads interleave — instead of each running to quiescence before the next fires.
func c13Scenario(kind string, cofire bool) *mc.Scenario {
	return &mc.Scenario{
		Name:   "C13/grid/" + kind + map[bool]string{true: "", false: "/serial-instants"}[cofire],
		Params: "arrival in {0,5} ms (deadline limiter: also D and D+1), bound D in {10,20} ms, context bound (explicit cancel or context deadline) in {none,pre,5,D-1,D,D+1}, release in {none,D-1,D,D+1}; limit 1 held",
		Cfg:    vrt.Config{MaxSteps: 4000, Horizon: 200 * ms, CoFire: cofire},
		Body: func(x *mc.Exec) {
			e := &c13Expect{kind: kind}
			x.Aux = e
			e.d = []int64{10, 20}[vrt.Choose(2)]
			taMenu := []int64{0, 5}
			if kind == "deadline" {
				taMenu = []int64{0, 5, e.d, e.d + 1} // arrivals at and after the limiter's deadline
			}
			e.ta = taMenu[vrt.Choose(len(taMenu))]
			tcMenu := []int64{-1, 0, 5, e.d - 1, e.d, e.d + 1}
			trMenu := []int64{-1, e.d - 1, e.d, e.d + 1}
			e.tc = tcMenu[vrt.Choose(len(tcMenu))]
			e.tr = trMenu[vrt.Choose(len(trMenu))]
			// the bound on the context is either an explicit cancel() at tc or a context deadline at tc
			byDeadline := e.tc >= 0 && vrt.Choose(2) == 1
			fam := map[string]string{"blocking0": "blocking", "blocking7": "blocking", "deadline": "deadline", "queue-fifo": "queue",
				"queue-lifo-evict": "queue"}[kind]
			if fam == "blocking" && e.tc < 0 && e.tr < 0 {
				return // unbounded wait by design: nothing to check
			}
			ignoreCtx := false
			if fam == "queue" && kind == "queue-fifo" && e.tc >= 0 {
				// cancellation does not bound this limiter (eviction off): the context is still cancelled /
				// carries its deadline, but the expectation is that of "no cancel"
				ignoreCtx = true
			}
			e.ignoreCtx = ignoreCtx
			bk := kind
			if kind == "blocking7" {
				bk = "blocking50"
			}
			st := buildStack(bk, 1, stackOpts{deadlineIn: time.Duration(e.d * ms), timeout: map[string]time.Duration{
				"blocking7": 7 * time.Millisecond, "queue-fifo": time.Duration(e.d * ms), "queue-lifo-evict": time.Duration(e.d * ms)}[kind]})
			e.desc = fmt.Sprintf("%s ta=%d D=%d tc=%d tr=%d", kind, e.ta, e.d, e.tc, e.tr)
			// calls that must be refused at once (already-cancelled context, arrival after the deadline) are
			// also made with the capacity free: "without consuming capacity" is only a real demand then
			freeCap := false
			if (e.tc == 0 && fam != "queue") || (kind == "deadline" && e.ta > e.d) {
				freeCap = vrt.Choose(2) == 1
			}
			var held core.Listener
			if freeCap {
				e.tr = -1
				e.desc += " capacity-free"
			} else {
				h, ok := st.top.Acquire(waiterCtx(100))
				if !ok {
					x.Fail("setup", "holder could not acquire")
					return
				}
				held = h
			}
			var ctx vctx.Context
			var cancel vctx.CancelFunc
			if byDeadline {
				ctx, cancel = vctx.WithDeadline(waiterCtx(0), vtime.VirtualOf(e.tc*ms))
				e.desc += " ctx=deadline"
			} else {
				ctx, cancel = vctx.WithCancel(waiterCtx(0))
				if e.tc == 0 {
					cancel() // pre-cancelled
				}
			}
			var ths []*vrt.Thread
			caller := vrt.GoL("caller", func() {
				if e.ta > 0 {
					vtime.Sleep(time.Duration(e.ta * ms))
				}
				c0 := st.rec.Consulted
				e.busyBefore, _ = st.busy()
				l, ok := st.top.Acquire(ctx)
				e.retClock = vrt.Now()
				e.busyAt, _ = st.busy()
				e.granted = ok
				e.consulted = st.rec.Consulted - c0
				e.returned = true
				if ok != (l != nil) {
					x.Fail("listener-iff-ok", "listener=%v ok=%v", l != nil, ok)
				}
				if ok {
					l.OnSuccess()
				}
			})
			if e.tc > 0 && !byDeadline {
				ths = append(ths, vrt.GoL("canceller", func() { vtime.Sleep(time.Duration(e.tc * ms)); cancel() }))
			}
			if e.tr >= 0 {
				ths = append(ths, vrt.GoL("releaser", func() { vtime.Sleep(time.Duration(e.tr * ms)); held.OnSuccess() }))
			}
			vrt.Join(ths...)
			vrt.Join(caller)
			x.MarkConflict()
			if held != nil && e.tr < 0 {
				// a second caller arrives once the first has returned and the capacity is still held: whatever
				// the first call left behind, this one is bound by its own context deadline (3 ms from now)
				// or the limiter's bound, whichever comes first
				now := vrt.Now()
				e.ta2 = now
				b := now + 3*ms
				switch {
				case fam == "deadline" && e.d*ms < b:
					b = e.d * ms
					if b < now {
						b = now
					}
				case kind == "queue-fifo":
					b = now + e.d*ms // cancellation does not bound this limiter
				}
				e.bound2 = b
				e.follow = true
				ctx2, cancel2 := vctx.WithDeadline(waiterCtx(1), vtime.VirtualOf(now+3*ms))
				f := vrt.GoL("follow-up", func() {
					l, ok := st.top.Acquire(ctx2)
					e.ret2 = vrt.Now()
					e.granted2 = ok
					e.returned2 = true
					if ok && l != nil {
						l.OnSuccess()
					}
				})
				vrt.Join(f)
				cancel2()
			}
		},
		Post: func(x *mc.Exec, r *vrt.Result) {
			e, _ := x.Aux.(*c13Expect)
			if e == nil || e.desc == "" {
				return
			}
			c13Check(x, e, r)
		},
	}
}

func c13Check(x *mc.Exec, e *c13Expect, r *vrt.Result) {
	if e.follow {
		fam := map[string]string{"blocking0": "blocking", "blocking7": "blocking", "deadline": "deadline", "queue-fifo": "queue", "queue-lifo-evict": "queue"}[e.kind]
		x.Observe("follow-up at %d -> returned=%v granted=%v at=%d bound=%d", e.ta2, e.returned2, e.granted2, e.ret2, e.bound2)
		switch {
		case !e.returned2 || e.ret2 > e.bound2:
			x.Fail(fam+"/follow-up-blocks-past-bound", "%s: a second caller arriving at %d (capacity still held) was still blocked after its bound %d (returned=%v at %d); parked: %v",
				e.desc, e.ta2, e.bound2, e.returned2, e.ret2, r.StuckInfo)
		case e.granted2:
			x.Fail(fam+"/follow-up-granted-without-capacity", "%s: a second caller arriving at %d was granted at %d although the only token is still held", e.desc, e.ta2, e.ret2)
		case e.ret2 < e.bound2:
			x.Fail(fam+"/follow-up-refused-early", "%s: a second caller arriving at %d was refused at %d, before its bound %d, while no capacity was offered", e.desc, e.ta2, e.ret2, e.bound2)
		}
	}
	fam := map[string]string{"blocking0": "blocking", "blocking7": "blocking", "deadline": "deadline", "queue-fifo": "queue", "queue-lifo-evict": "queue"}[e.kind]
	if e.ignoreCtx {
		e.tc = -1
	}
	ta, d, tc, tr := e.ta*ms, e.d*ms, e.tc*ms, e.tr*ms
	x.Observe("%s -> returned=%v granted=%v at=%d consulted=%d", e.desc, e.returned, e.granted, e.retClock, e.consulted)
	// immediate refusals that must not touch capacity
	pre := e.tc == 0 && fam != "queue"
	late := fam == "deadline" && ta > d
	if pre || late {
		why := "an already-cancelled context"
		if late && !pre {
			why = "an arrival after the deadline"
		}
		switch {
		case !e.returned:
			x.Fail(fam+"/immediate-refusal-blocks", "%s: %s never returned", e.desc, why)
		case e.granted:
			x.Fail(fam+"/immediate-refusal-granted", "%s: %s was granted", e.desc, why)
		case e.retClock != ta:
			x.Fail(fam+"/immediate-refusal-late", "%s: %s was refused at %d, arrival was %d", e.desc, why, e.retClock, ta)
		case e.busyAt != e.busyBefore && e.tr != e.ta:
			// (a release falling on the very instant of the call changes the count concurrently: not judged)
			x.Fail(fam+"/immediate-refusal-consumed", "%s: busy changed %d -> %d", e.desc, e.busyBefore, e.busyAt)
		}
		return
	}
	// bound
	const inf = int64(1) << 60
	bound := inf
	switch fam {
	case "deadline":
		bound = d
	case "queue":
		bound = ta + d // backlog timeout counts from the arrival
	}
	if e.tc >= 0 && tc < bound && (fam != "queue" || e.kind == "queue-lifo-evict") {
		if tc >= ta {
			bound = tc
		} else {
			bound = ta // cancelled before arriving
			if fam == "queue" {
				// the queue limiter tries the delegate first and then leaves at once through ctx.Done
				bound = ta
			}
		}
	}
	grant := inf
	if e.tr >= 0 {
		grant = tr
		if grant < ta {
			grant = ta
		}
	}
	if fam != "queue" && e.tc > 0 && tc < ta {
		// arrives with a context that was cancelled earlier: immediate refusal, as above
		if !e.returned || e.granted || e.retClock != ta {
			x.Fail(fam+"/immediate-refusal-late", "%s: cancelled before arrival, yet returned=%v granted=%v at %d", e.desc, e.returned, e.granted, e.retClock)
		}
		return
	}
	switch {
	case grant < bound:
		// capacity is offered before the bound. Whether the caller picks it up promptly is C10's
		// question; C13 only bounds the wait: it returns by its bound, and is not refused before
		// anything was offered
		switch {
		case !e.returned || e.retClock > bound:
			x.Fail(fam+"/blocks-past-bound", "%s: still blocked after the bound %d (returned=%v granted=%v at %d); parked: %v", e.desc, bound, e.returned, e.granted, e.retClock, r.StuckInfo)
		case !e.granted && e.retClock < grant:
			x.Fail(fam+"/refused-early", "%s: refused at %d, before the bound %d and before any capacity was offered (%d)", e.desc, e.retClock, bound, grant)
		case e.granted && e.retClock < grant:
			x.Fail(fam+"/granted-without-capacity", "%s: granted at %d although capacity was only offered at %d", e.desc, e.retClock, grant)
		}
	case grant == bound:
		// tie: either outcome, at that instant
		if !e.returned {
			x.Fail(fam+"/blocks-past-bound", "%s: still blocked after the bound %d; stuck=%v", e.desc, bound, r.StuckInfo)
		} else if e.retClock != bound {
			x.Fail(fam+"/return-instant", "%s: returned at %d, bound and offer were both at %d", e.desc, e.retClock, bound)
		}
	default:
		if bound == inf {
			return
		}
		if !e.returned {
			x.Fail(fam+"/blocks-past-bound", "%s: still blocked after the bound %d (virtual time %d); parked: %v", e.desc, bound, r.EndClock, r.StuckInfo)
		} else if e.granted {
			x.Fail(fam+"/granted-without-capacity", "%s: granted at %d although no capacity was offered before the bound %d", e.desc, e.retClock, bound)
		} else if e.retClock < bound {
			x.Fail(fam+"/refused-early", "%s: refused at %d, before the bound %d, while no capacity was offered", e.desc, e.retClock, bound)
		} else if e.retClock > bound {
			x.Fail(fam+"/refused-late", "%s: refused at %d, after the bound %d", e.desc, e.retClock, bound)
		}
	}
}

func runC13(c *Ctx) {
	opt := mc.Options{PreemptBound: c.Pick(2, 3)}
	for _, kind := range []string{"deadline", "blocking0", "queue-fifo", "queue-lifo-evict"} {
		c.Explore(c13Scenario(kind, true), opt)
	}
	// the 7 ms poll timeout re-arms on instants of the grid: with concurrent instants the space is only
	// finished at preemption bound 1 (sharded); at the full bound each wake-up runs to quiescence
	c.ExploreBig(c13Scenario("blocking7", true), mc.Options{PreemptBound: 1})
	c.Explore(c13Scenario("blocking7", false), opt)
	// queue driver: timeouts and cancellations in arbitrary event sequences
	opt0 := mc.Options{PreemptBound: 0}
	for _, ct := range qCtors()[:3] {
		for _, evict := range []bool{false, true} {
			c.Explore(qdScenario(qdCase{prop: "C13", ctor: ct, limit: 1, maxBacklog: 3, timeout: 50 * time.Millisecond, evict: evict,
				maxArrive: c.Pick(4, 5), depth: c.Pick(6, 7)}), opt0)
		}
	}
	// the constructors that take the timeout as an argument (deprecated FIFO/LIFO wrappers, pools): a
	// value different from the library's default of one second
	for _, ct := range []qCtor{qCtors()[3], qCtors()[4], qCtors()[8], qCtors()[9]} {
		c.Explore(qdScenario(qdCase{prop: "C13", ctor: ct, limit: 1, maxBacklog: 3, timeout: 70 * time.Millisecond, maxArrive: 4, depth: c.Pick(5, 6)}), opt0)
	}
	for _, fp := range []string{"fifo", "lifo"} {
		c.Explore(qdScenario(qdCase{prop: "C13", fixedPool: fp, limit: 1, maxBacklog: 3, timeout: 70 * time.Millisecond, maxArrive: 4, depth: c.Pick(5, 6)}), opt0)
	}
}
