package main

import (
	"fmt"

	"github.com/anishathalye/porcupine"
	"github.com/platinummonkey/go-concurrency-limits/core"
	"github.com/platinummonkey/go-concurrency-limits/strategy"

	"verif/mc"
	"verif/vrt"
	"verif/vrt/vctx"
)

// C01 — admission is an atomic gate. Mode T: all interleavings (within a preemption bound) of
// Acquire / completions / window-closing limit updates on the real DefaultLimiter+strategy; the
// recorded call/return history of every execution is checked for linearizability against a
// counting gate (porcupine), plus exact end-state accounting.

func init() { props["C01"] = runC01 }

type gateIn struct {
	Kind int // 0 acquire, 1 release, 2 setlimit
	V    int
}

type gateState struct{ Limit, Out int }

func gateModel(initLimit int) porcupine.Model {
	return porcupine.Model{
		Init: func() interface{} { return gateState{Limit: max1(initLimit)} },
		Step: func(state, input, output interface{}) (bool, interface{}) {
			s := state.(gateState)
			in := input.(gateIn)
			switch in.Kind {
			case 0:
				ok := output.(bool)
				if ok {
					if s.Out < s.Limit {
						s.Out++
						return true, s
					}
					return false, s
				}
				return s.Out >= s.Limit, s
			case 1:
				s.Out--
				return s.Out >= 0, s
			default:
				s.Limit = max1(in.V)
				return true, s
			}
		},
		Equal: func(a, b interface{}) bool { return a.(gateState) == b.(gateState) },
		DescribeOperation: func(in, out interface{}) string {
			i := in.(gateIn)
			return fmt.Sprintf("%s(%d)->%v", []string{"acquire", "release", "setlimit"}[i.Kind], i.V, out)
		},
	}
}

func max1(v int) int {
	if v < 1 {
		return 1
	}
	return v
}

// hist records call/return events in the total order in which the (single running) thread makes them.
type hist struct {
	tick int64
	ops  []porcupine.Operation
}

func (h *hist) now() int64 { h.tick++; return h.tick }
func (h *hist) add(client int, in gateIn, out interface{}, call, ret int64) {
	h.ops = append(h.ops, porcupine.Operation{ClientId: client, Input: in, Output: out, Call: call, Return: ret})
}
func (h *hist) overlapping() bool {
	for i := range h.ops {
		for j := i + 1; j < len(h.ops); j++ {
			a, b := h.ops[i], h.ops[j]
			if a.ClientId != b.ClientId && a.Call < b.Return && b.Call < a.Return {
				return true
			}
		}
	}
	return false
}
func (h *hist) String() string {
	s := ""
	for _, o := range h.ops {
		i := o.Input.(gateIn)
		s += fmt.Sprintf("c%d:%s(%d)->%v@[%d,%d] ", o.ClientId, []string{"acq", "rel", "set"}[i.Kind], i.V, o.Output, o.Call, o.Return)
	}
	return s
}

// c01Prog is a per-thread program: a string over 'A' (acquire and keep), 's','i','d' (complete the
// thread's oldest held token with success/ignore/dropped).
type c01Case struct {
	name    string
	kind    string // simple | precise
	traj    []int
	prefill int      // samples completed in set-up (10 => the next completion closes a window)
	held    []int    // number of tokens pre-acquired for each thread
	progs   []string // one per thread
	fast    bool     // minimum RTT threshold above every RTT: successes are "too fast to be a sample"
}

func c01Scenario(cs c01Case) *mc.Scenario {
	return &mc.Scenario{
		Name:   "C01/" + cs.name,
		Params: fmt.Sprintf("strategy=%s traj=%v prefill=%d held=%v progs=%v below-rtt-threshold=%v", cs.kind, cs.traj, cs.prefill, cs.held, cs.progs, cs.fast),
		Cfg:    vrt.Config{TickPerNow: 1000},
		Body: func(x *mc.Exec) {
			h := &hist{}
			lim := &ScriptLimit{Traj: cs.traj}
			strat := newStrategy(cs.kind, cs.traj[0], nil)
			minRTT := int64(1)
			if cs.fast {
				minRTT = 1e15
			}
			l := newDefaultLimiterRTT(lim, strat, 1000, 1000, minRTT, nil)
			ctx := vctx.Background()
			// set-up (sequential, not part of the checked history)
			for i := 0; i < cs.prefill; i++ {
				tok, ok := l.Acquire(ctx)
				if !ok {
					x.Fail("setup", "prefill acquire refused")
					return
				}
				tok.OnSuccess()
			}
			if len(lim.Samples) != 0 {
				x.Fail("setup", "window closed during prefill")
				return
			}
			heldToks := make([][]core.Listener, len(cs.progs))
			for t, n := range cs.held {
				for k := 0; k < n; k++ {
					tok, ok := l.Acquire(ctx)
					if !ok {
						x.Fail("setup", "pre-acquire refused")
						return
					}
					heldToks[t] = append(heldToks[t], tok)
				}
			}
			preHeld := 0
			for _, n := range cs.held {
				preHeld += n
			}
			// the model starts with preHeld outstanding tokens: encode as acquires that completed before everything
			for k := 0; k < preHeld; k++ {
				c := h.now()
				h.add(100+k, gateIn{Kind: 0}, true, c, h.now())
			}
			type pend struct {
				tick int64
				v    int
				set  bool
			}
			pends := map[int]*pend{}
			lim.OnEnter = func(v int) {
				p := pends[vrt.Self().ID]
				if p != nil {
					p.tick, p.v, p.set = h.now(), v, true
				}
			}
			var ths []*vrt.Thread
			for t := range cs.progs {
				t := t
				prog := cs.progs[t]
				ths = append(ths, vrt.GoL(fmt.Sprintf("P%d", t), func() {
					for _, op := range prog {
						switch op {
						case 'A', 'X':
							// 'X': the caller's context is already cancelled — the default limiter is a pure gate,
							// the decision is the same and a refusal must not hold a slot
							actx := ctx
							if op == 'X' {
								c2, cancel := vctx.WithCancel(ctx)
								cancel()
								actx = c2
							}
							c := h.now()
							tok, ok := l.Acquire(actx)
							r := h.now()
							h.add(t, gateIn{Kind: 0}, ok, c, r)
							if ok != (tok != nil) {
								x.Fail("listener-iff-ok", "Acquire returned listener=%v ok=%v", tok != nil, ok)
							}
							if ok {
								heldToks[t] = append(heldToks[t], tok)
							}
						case 's', 'i', 'd':
							if len(heldToks[t]) == 0 {
								continue
							}
							tok := heldToks[t][0]
							heldToks[t] = heldToks[t][1:]
							p := &pend{}
							pends[vrt.Self().ID] = p
							c := h.now()
							complete(tok, map[rune]int{'s': 0, 'i': 1, 'd': 2}[op])
							r := h.now()
							h.add(t, gateIn{Kind: 1}, nil, c, r)
							if p.set {
								h.add(t+50, gateIn{Kind: 2, V: p.v}, nil, p.tick, r)
							}
							delete(pends, vrt.Self().ID)
						}
					}
				}))
			}
			vrt.Join(ths...)
			// oracle 1: linearizable against the counting gate
			if !porcupine.CheckOperations(gateModel(cs.traj[0]), h.ops) {
				x.Fail("not-linearizable", "history is not a history of an atomic counting gate: %s", h)
			}
			// oracle 2: end-state accounting
			holders := 0
			for _, ts := range heldToks {
				holders += len(ts)
			}
			sv := stratView{s: strat}
			if b := sv.Busy(); b != holders {
				x.Fail("busy-mismatch", "strategy busy=%d but %d tokens are held", b, holders)
			}
			// (the limiter's own in-flight gauge and the agreement of the enforced limit with the estimate
			// are C02's and C05's subjects: a tree that breaks only those still behaves like a gate)
			if h.overlapping() {
				x.MarkConflict()
			}
			x.Observe("%s", h.resultString())
			x.Observe("busy=%d limit=%d", sv.Busy(), sv.Limit())
		},
	}
}

// resultString is the outcome record: per client, the sequence of results (order of calls within a
// client is fixed by its program).
func (h *hist) resultString() string {
	s := ""
	for _, o := range h.ops {
		i := o.Input.(gateIn)
		if o.ClientId >= 100 {
			continue
		}
		s += fmt.Sprintf("c%d:%d%v ", o.ClientId, i.Kind, o.Output)
	}
	return s
}

// Direct use of the precise strategy: TryAcquire / Release / SetLimit from several threads.
type c01Direct struct {
	name  string
	limit int
	held  []int
	progs []string // 'A' tryacquire, 'R' release oldest, '1'..'9' SetLimit(n), '0' SetLimit(0)
}

func c01DirectScenario(cs c01Direct) *mc.Scenario {
	return &mc.Scenario{
		Name:   "C01/direct-" + cs.name,
		Params: fmt.Sprintf("limit=%d held=%v progs=%v", cs.limit, cs.held, cs.progs),
		Body: func(x *mc.Exec) {
			h := &hist{}
			s := strategy.NewPreciseStrategy(cs.limit)
			ctx := vctx.Background()
			toks := make([][]core.StrategyToken, len(cs.progs))
			k := 0
			for t, n := range cs.held {
				for j := 0; j < n; j++ {
					tok, ok := s.TryAcquire(ctx)
					if !ok {
						x.Fail("setup", "pre-acquire refused")
						return
					}
					toks[t] = append(toks[t], tok)
					c := h.now()
					h.add(100+k, gateIn{Kind: 0}, true, c, h.now())
					k++
				}
			}
			var ths []*vrt.Thread
			for t := range cs.progs {
				t := t
				prog := cs.progs[t]
				ths = append(ths, vrt.GoL(fmt.Sprintf("P%d", t), func() {
					for _, op := range prog {
						switch {
						case op == 'A':
							c := h.now()
							tok, ok := s.TryAcquire(ctx)
							r := h.now()
							h.add(t, gateIn{Kind: 0}, ok, c, r)
							if ok && (tok == nil || !tok.IsAcquired()) || !ok && tok != nil && tok.IsAcquired() {
								x.Fail("token-iff-ok", "TryAcquire token=%v ok=%v", tok, ok)
							}
							if ok {
								toks[t] = append(toks[t], tok)
							}
						case op == 'R':
							if len(toks[t]) == 0 {
								continue
							}
							tok := toks[t][0]
							toks[t] = toks[t][1:]
							c := h.now()
							tok.Release()
							h.add(t, gateIn{Kind: 1}, nil, c, h.now())
						case op >= '0' && op <= '9':
							c := h.now()
							s.SetLimit(int(op - '0'))
							h.add(t, gateIn{Kind: 2, V: int(op - '0')}, nil, c, h.now())
						}
					}
				}))
			}
			vrt.Join(ths...)
			if !porcupine.CheckOperations(gateModel(cs.limit), h.ops) {
				x.Fail("not-linearizable", "history is not a history of an atomic counting gate: %s", h)
			}
			holders := 0
			for _, ts := range toks {
				holders += len(ts)
			}
			if s.GetBusyCount() != holders {
				x.Fail("busy-mismatch", "strategy busy=%d but %d tokens are held", s.GetBusyCount(), holders)
			}
			if h.overlapping() {
				x.MarkConflict()
			}
			x.Observe("%s busy=%d limit=%d", h.resultString(), s.GetBusyCount(), s.GetLimit())
		},
	}
}

func runC01(c *Ctx) {
	pb := c.Pick(3, 4)
	// small scenarios: happens-before caching is switched off, so that a change which makes plain
	// accesses racy (a removed lock) cannot hide behind states merged on the assumption of race freedom
	opt := mc.Options{PreemptBound: pb, DevBound: 0, NoCache: true}
	for _, kind := range []string{"simple", "precise"} {
		cases := []c01Case{
			{name: "G1-race-2", kind: kind, traj: []int{1}, progs: []string{"A", "A"}},
			{name: "G1-race-3", kind: kind, traj: []int{2}, progs: []string{"A", "A", "A"}},
			{name: "G2-release-success", kind: kind, traj: []int{1}, held: []int{1, 0, 0}, progs: []string{"s", "A", "A"}},
			{name: "G2-release-ignore", kind: kind, traj: []int{1}, held: []int{1, 0, 0}, progs: []string{"i", "A", "A"}},
			{name: "G2-release-dropped", kind: kind, traj: []int{1}, held: []int{1, 0, 0}, progs: []string{"d", "A", "A"}},
			{name: "G2-release-with-room", kind: kind, traj: []int{2}, held: []int{1, 0}, progs: []string{"s", "A"}},
			{name: "G2-release-with-room-3", kind: kind, traj: []int{3}, held: []int{1, 1, 0}, progs: []string{"i", "d", "AA"}},
			{name: "G3-window-lower", kind: kind, traj: []int{2, 1}, prefill: 10, held: []int{1, 1, 0}, progs: []string{"s", "s", "A"}},
			{name: "G3-window-raise", kind: kind, traj: []int{1, 2}, prefill: 10, held: []int{1, 0, 0}, progs: []string{"s", "A", "A"}},
			{name: "G3-window-zero", kind: kind, traj: []int{2, 0}, prefill: 10, held: []int{1, 1, 0}, progs: []string{"d", "s", "AA"}},
			{name: "G4-chained", kind: kind, traj: []int{1}, progs: []string{"AsA", "AsA"}},
			{name: "G5-cancelled-context", kind: kind, traj: []int{2}, progs: []string{"XA", "XsA"}},
			// completions faster than the minimum RTT threshold: no sample, but still exactly one unit back
			{name: "G6-fast-success", kind: kind, traj: []int{1}, held: []int{1, 0, 0}, progs: []string{"s", "A", "A"}, fast: true},
			{name: "G6-fast-chained", kind: kind, traj: []int{2}, held: []int{1, 0}, progs: []string{"sAA", "AsA"}, fast: true},
		}
		if c.Thorough() {
			cases = append(cases,
				c01Case{name: "G1-race-4", kind: kind, traj: []int{2}, progs: []string{"A", "A", "A", "A"}},
				c01Case{name: "G2-mixed-4", kind: kind, traj: []int{2}, held: []int{1, 1, 0, 0}, progs: []string{"d", "i", "A", "A"}},
				c01Case{name: "G3-window-raise-3", kind: kind, traj: []int{1, 3}, prefill: 10, held: []int{1, 0, 0, 0}, progs: []string{"s", "A", "A", "A"}},
				c01Case{name: "G4-chained-3", kind: kind, traj: []int{2}, progs: []string{"AsA", "AdA", "AiA"}},
			)
		}
		for _, cs := range cases {
			c.Explore(c01Scenario(cs), opt)
		}
	}
	direct := []c01Direct{
		{name: "race-2", limit: 1, progs: []string{"A", "A"}},
		{name: "race-3", limit: 2, progs: []string{"A", "A", "A"}},
		{name: "release", limit: 1, held: []int{1, 0, 0}, progs: []string{"R", "A", "A"}},
		{name: "setlimit-lower", limit: 2, held: []int{1, 0, 0}, progs: []string{"R", "1", "AA"}},
		{name: "setlimit-raise", limit: 1, held: []int{1, 0, 0}, progs: []string{"2", "A", "A"}},
		{name: "setlimit-zero", limit: 2, held: []int{1, 0, 0}, progs: []string{"0", "A", "RA"}},
		{name: "chained", limit: 1, progs: []string{"ARA", "ARA"}},
	}
	if c.Thorough() {
		direct = append(direct,
			c01Direct{name: "race-4", limit: 2, progs: []string{"A", "A", "A", "A"}},
			c01Direct{name: "chained-3", limit: 2, progs: []string{"ARA", "ARA", "A3A"}},
		)
	}
	for _, cs := range direct {
		c.Explore(c01DirectScenario(cs), opt)
	}
}
