package main

import (
	"fmt"
	"math"

	"verif/mc"
)

// C04 — the estimate stays a finite in-bounds integer and samples never panic. Mode S: BFS over
// sample sequences (abstract alphabet incl. rtt 0 and 2^62, in-flight 0..2^31-1, drops, windows that
// contain only drops) x environment draws x configurations, alone and inside the wrappers.

func init() { props["C04"] = runC04 }

func c04Hooks(level int) limHooks {
	return limHooks{
		name: "C04", level: level, withZero: true, withHuge: true,
		step: func(li *limInst, s sample, before, after int, pm string, t *mc.Tr) {
			cls := li.cfg.algo
			if pm != "" {
				t.Fail(cls+"/panic", "OnSample(%s) panicked after %d samples: %s", s, li.n, pm)
				return
			}
			lo, hi := li.cfg.floor(), li.cfg.ceiling(li.n)
			if f, ok := li.estFloat(); ok && (math.IsNaN(f) || math.IsInf(f, 0)) {
				t.Fail(cls+"/not-finite", "estimate became %v after sample %s (reported %d)", f, s, after)
				return
			}
			if after < lo {
				t.Fail(cls+"/below-floor", "estimate %d < floor %d after sample %s (before %d)", after, lo, s, before)
			}
			if after > hi {
				t.Fail(cls+"/above-ceiling", "estimate %d > ceiling %d after sample %s (before %d)", after, hi, s, before)
			}
		},
	}
}

func runC04(c *Ctx) {
	level := c.Pick(0, 1)
	depth := c.Pick(5, 6)
	for _, cfg := range append(limGrid(level), limGridVariants()...) {
		for _, w := range []string{"", "windowed", "traced"} {
			cfg := cfg
			cfg.wrapper = w
			d := depth
			if w == "windowed" {
				d = depth + c.Pick(1, 0)
			}
			if w == "traced" && !c.Thorough() {
				d = depth - 1
			}
			c.runBFS(limModel(cfg, c04Hooks(level)), mc.BFSOptions{MaxDepth: d, DevBound: c.Pick(1, 2), MaxStates: c.Pick(1500000, 4000000)})
		}
	}
	_ = fmt.Sprint
}
