package main

import (
	"fmt"
	"hash/fnv"
	"math"
	"os"
	"strings"
	"time"

	"github.com/platinummonkey/go-concurrency-limits/core"
	"github.com/platinummonkey/go-concurrency-limits/limit"
	"github.com/platinummonkey/go-concurrency-limits/limiter"
	"github.com/platinummonkey/go-concurrency-limits/strategy"

	"verif/mc"
	"verif/vrt"
	"verif/vrt/vctx"
)

// C05 — enforcement follows the estimate. Mode S: DefaultLimiter over a scripted limit (estimate
// trajectories including 0, negative, repeated and huge values) and every strategy kind, driven by
// deviation-bounded completion histories (two windows long); right after construction and after
// every completion during which the algorithm was updated, the strategy limit and every partition
// share must equal the current estimate floored at 1, and the gauge suppliers must agree. Mode T:
// several holders complete concurrently on a pre-filled window; at the end (and at every quiescent
// state) the enforced limit equals the scripted estimate.

func init() { props["C05"] = runC05 }

var c05Trajs = [][]int{{0, -3, 1}, {1, 1, 2}, {2, 7, 7}, {7, 1 << 30, 3}, {1 << 30, 0, 5}, {3, 3, 3}, {5, math.MaxInt32, 2}, {9, 9, 4}}

func c05Check(kind string, strat core.Strategy, reg *RecRegistry, est int, when string) (sig, msg string) {
	want := max1(est)
	sv := stratView{s: strat}
	if got := sv.Limit(); got != want {
		return kind + "/stale-strategy-limit", fmt.Sprintf("%s: strategy limit=%d, estimate=%d (floored %d)", when, got, est, want)
	}
	type bin struct {
		name string
		frac float64
		get  func() (int, error)
	}
	var bins []bin
	switch s := strat.(type) {
	case *strategy.LookupPartitionStrategy:
		bins = []bin{{"a", 0.3, func() (int, error) { return s.BinLimit("a") }}, {"b", 0.7, func() (int, error) { return s.BinLimit("b") }}}
	case *strategy.PredicatePartitionStrategy:
		bins = []bin{{"a", 0.5, func() (int, error) { return s.BinLimit(0) }}, {"b", 0.5, func() (int, error) { return s.BinLimit(1) }}}
	}
	for _, b := range bins {
		got, err := b.get()
		w := int(math.Max(1, math.Ceil(float64(want)*b.frac)))
		if err != nil || got != w {
			return kind + "/stale-partition-share", fmt.Sprintf("%s: bin %s share=%d (err %v), expected max(1,ceil(%d*%v))=%d", when, b.name, got, err, want, b.frac, w)
		}
	}
	return "", ""
}

// c05History runs one history; returns the first violation and the number of updates seen.
func c05History(kind string, traj []int, hist []int) (sig, msg string, updates int) {
	c05UpdatePos = c05UpdatePos[:0]
	vrt.ManualClock = 1_000_000_000
	reg := NewRecRegistry()
	lim := &ScriptLimit{Traj: append([]int{}, traj...)}
	strat := newStrategy(kind, 9, reg) // constructed with an unrelated limit: the limiter must install the estimate
	l, err := limiter.NewDefaultLimiter(lim, 10e6, 10e6, 1e6, 10, strat, limit.NoopLimitLogger{}, reg)
	if err != nil {
		panic(err)
	}
	if s, m := c05Check(kind, strat, reg, lim.EstimatedLimit(), "after construction"); s != "" {
		return s + "/construction", m, 0
	}
	ctx := ctxFor("a")
	for i, d := range hist {
		dur := int64(2 * time.Millisecond)
		outcome := 0
		switch d {
		case 1:
			outcome = 2
		case 2:
			outcome = 1
		case 3:
			dur = 1e6 - 1
		case 4:
			vrt.ManualClock += 10e6
		case 5:
			vrt.ManualClock += 10e6
			outcome = 2
		case 6:
			// the algorithm's estimate moves outside OnSample (e.g. an operator's SetLimit on a settable
			// limit) to the value the next update will report as well: that update's OnSample then leaves
			// the estimate unchanged, yet enforcement must follow it
			if lim.Pos+1 < len(lim.Traj) {
				lim.Traj[lim.Pos] = lim.Traj[lim.Pos+1]
			}
		case 7:
			// ... or to an unrelated value
			lim.Traj[lim.Pos] = 6
		}
		tok, ok := l.Acquire(ctx)
		if !ok {
			// refused with nothing held: an admission defect (C01's subject), not a stale limit — the
			// enforced limit is never below 1. The history cannot go on; C05 has nothing to say about it
			return "", "", updates
		}
		vrt.ManualClock += dur
		before := len(lim.Samples)
		complete(tok, outcome)
		if len(lim.Samples) > before {
			updates++
			c05UpdatePos = append(c05UpdatePos, i)
			if s, m := c05Check(kind, strat, reg, lim.EstimatedLimit(), fmt.Sprintf("after completion %d (update %d, trajectory %v)", i, updates, traj)); s != "" {
				return s, m, updates
			}
		}
		vrt.ManualClock += 1e6
	}
	return "", "", updates
}

var c05UpdatePos []int

var c05Dev = []string{"default(success,2ms)", "drop", "ignore", "below-threshold", "gap(one period)", "drop+gap", "estimate-set-externally-to-next", "estimate-set-externally-to-6"}

func c05Seq(c *Ctx, kind string, traj []int, db int) {
	name := "C05/history/" + kind
	params := fmt.Sprintf("trajectory=%v history=26 deviations<=%d of %v", traj, db, c05Dev[1:])
	if c.replay != nil {
		if c.replay.Scenario == name && c.replay.Params == params {
			sig, msg, _ := c05History(kind, traj, c.replay.Choices)
			fmt.Printf("replay %s %s history=%v\n", name, params, c.replay.Choices)
			if sig != "" {
				fmt.Printf("  FAIL [%s] %s\nREPLAY: violation reproduced\n", sig, msg)
				os.Exit(1)
			}
			fmt.Println("REPLAY: no violation")
			os.Exit(0)
		}
		return
	}
	if c.only != "" && !strings.Contains(name+" "+params, c.only) {
		return
	}
	if !c.Mine() || c.expired() {
		return
	}
	start := time.Now()
	st := &mc.BFSStats{Model: name, Params: params, SigCounts: map[string]int{}, MaxDepth: 26, Depth: 26, Exhaustive: true}
	outcomes := map[uint64]struct{}{}
	sigSeen := map[string]bool{}
	enumerate(26, len(c05Dev), db, func(h []int) {
		sig, msg, ups := c05History(kind, traj, h)
		st.Transitions += 26
		if ups > 0 {
			st.Nontrivial += 26
		}
		hh := fnv.New64a()
		fmt.Fprint(hh, ups, sig, c05UpdatePos)
		outcomes[hh.Sum64()] = struct{}{}
		if len(st.Samples) < 1 {
			st.Samples = append(st.Samples, []mc.Step{{Op: h[0], Lbl: c05Dev[h[0]]}, {Op: h[1], Lbl: c05Dev[h[1]]}})
		}
		if sig != "" {
			st.SigCounts[sig]++
			if !sigSeen[sig] {
				sigSeen[sig] = true
				st.Violations = append(st.Violations, &mc.Violation{Scenario: name, Params: params, Choices: append([]int{}, h...), Failures: []mc.Failure{{Sig: sig, Msg: msg}}})
			}
		}
	})
	st.States = len(outcomes)
	st.WallS = time.Since(start).Seconds()
	if c.verbose {
		fmt.Fprintf(os.Stderr, "%-28s %-70.70s histories=%d outcomes=%d viol=%v %.1fs\n", name, params, st.Transitions/26, st.States, st.SigCounts, st.WallS)
	}
	c.AddBFS(st)
}

// Mode T: concurrent window closers.
func c05Concurrent(kind string, traj []int, holders int) *mc.Scenario {
	return &mc.Scenario{
		Name:   "C05/concurrent/" + kind,
		Params: fmt.Sprintf("trajectory=%v holders=%d window pre-filled to 10", traj, holders),
		Cfg:    vrt.Config{TickPerNow: 1_000_000},
		Body: func(x *mc.Exec) {
			reg := NewRecRegistry()
			lim := &ScriptLimit{Traj: traj}
			strat := newStrategy(kind, 9, reg)
			l, err := limiter.NewDefaultLimiter(lim, 1000, 1000, 1, 10, strat, limit.NoopLimitLogger{}, reg)
			_ = strat
			if err != nil {
				panic(err)
			}
			x.Aux = [3]any{strat, reg, lim}
			ctx := vctx.WithValue(vctx.Background(), partKey, "a")
			for i := 0; i < 10; i++ {
				tok, ok := l.Acquire(ctx)
				if !ok {
					x.Fail("setup", "prefill refused")
					return
				}
				tok.OnSuccess()
			}
			var toks []core.Listener
			for i := 0; i < holders; i++ {
				tok, ok := l.Acquire(ctx)
				if !ok {
					break // the scripted limit may be 1
				}
				toks = append(toks, tok)
			}
			var ths []*vrt.Thread
			if holders >= 12 {
				// two updates that can overlap: H0's completion closes the pre-filled window, H1 completes
				// the other eleven in a row and thereby fills and closes the next one
				ths = append(ths, vrt.GoL("H0", func() { complete(toks[0], 0) }))
				ths = append(ths, vrt.GoL("H1", func() {
					for _, tok := range toks[1:] {
						tok.OnSuccess()
					}
				}))
			} else {
				for i, tok := range toks {
					i, tok := i, tok
					ths = append(ths, vrt.GoL(fmt.Sprintf("H%d", i), func() { complete(tok, []int{0, 2, 0}[i%3]) }))
				}
			}
			vrt.Join(ths...)
			if s, m := c05Check(kind, strat, reg, lim.EstimatedLimit(), "after all holders completed"); s != "" {
				x.Fail(s, "%s (updates %d)", m, len(lim.Samples))
			}
			x.Observe("updates=%d est=%d limit=%d", len(lim.Samples), lim.EstimatedLimit(), stratView{s: strat}.Limit())
			x.MarkConflict()
		},
		OnQuiescent: func(x *mc.Exec, s *vrt.Sched) {
			a, ok := x.Aux.([3]any)
			if !ok {
				return
			}
			strat, reg, lim := a[0].(core.Strategy), a[1].(*RecRegistry), a[2].(*ScriptLimit)
			okRead := s.TryCtl(func() {
				if sg, m := c05Check(kind, strat, reg, lim.EstimatedLimit(), "at a quiescent state"); sg != "" {
					x.FailOnce(sg, "%s", m)
				}
			})
			if !okRead {
				x.OracleSkipped++
			}
		},
	}
}

// c05Constructors: right after construction, through every public constructor of the default
// limiter, the strategy (built with a different limit) enforces the algorithm's estimate.
func c05Constructors(c *Ctx) {
	name := "C05/constructors"
	params := "NewDefaultLimiter / NewDefaultLimiterWithDefaults x strategy kind (strategy built with limit 9)"
	if c.replay != nil || (c.only != "" && !strings.Contains(name, c.only)) {
		if c.replay == nil || c.replay.Scenario != name {
			return
		}
	}
	if c.replay == nil && (!c.Mine() || c.expired()) {
		return
	}
	st := &mc.BFSStats{Model: name, Params: params, SigCounts: map[string]int{}, Exhaustive: true, Fixpoint: true, Depth: 1, MaxDepth: 1}
	for _, kind := range []string{"simple", "precise", "lookup", "predicate"} {
		for _, ctor := range []string{"NewDefaultLimiter", "NewDefaultLimiter(estimate equals the strategy's own limit)", "NewDefaultLimiterWithDefaults"} {
			reg := NewRecRegistry()
			strat := newStrategy(kind, 9, reg)
			var l *limiter.DefaultLimiter
			var err error
			if ctor == "NewDefaultLimiter" {
				l, err = limiter.NewDefaultLimiter(limit.NewFixedLimit("f", 4, nil), 1e6, 1e6, 1, 10, strat, limit.NoopLimitLogger{}, reg)
			} else if strings.HasPrefix(ctor, "NewDefaultLimiter(") {
				// the strategy was built with 9 and the algorithm says 9: nothing "changes", yet the shares must be those of 9
				l, err = limiter.NewDefaultLimiter(limit.NewFixedLimit("f", 9, nil), 1e6, 1e6, 1, 10, strat, limit.NoopLimitLogger{}, reg)
			} else {
				l, err = limiter.NewDefaultLimiterWithDefaults("d", strat, limit.NoopLimitLogger{}, reg)
			}
			if err != nil {
				panic(err)
			}
			st.Transitions++
			st.Nontrivial++
			st.States++
			if sig, msg := c05Check(kind, strat, reg, l.EstimatedLimit(), "right after "+ctor); sig != "" {
				st.SigCounts[sig]++
				st.Violations = append(st.Violations, &mc.Violation{Scenario: name, Params: params, Failures: []mc.Failure{{Sig: sig, Msg: msg}}})
			}
		}
	}
	if c.replay != nil {
		for _, v := range st.Violations {
			fmt.Printf("  FAIL [%s] %s\n", v.Failures[0].Sig, v.Failures[0].Msg)
		}
		return
	}
	c.AddBFS(st)
}

func runC05(c *Ctx) {
	c05Constructors(c)
	db := c.Pick(2, 3)
	for _, kind := range []string{"simple", "precise", "lookup", "predicate"} {
		for _, tr := range c05Trajs {
			c05Seq(c, kind, tr, db)
		}
	}
	pb := c.Pick(3, 4)
	for _, kind := range []string{"simple", "precise", "lookup", "predicate"} {
		for _, tr := range [][]int{{3, 1, 5}, {3, 0, 1 << 30}, {2, 2, 7}} {
			c.Explore(c05Concurrent(kind, tr, 2), mc.Options{PreemptBound: pb, NoCache: true})
			c.Explore(c05Concurrent(kind, tr, 3), mc.Options{PreemptBound: c.Pick(2, 3)})
		}
		// two window updates in flight at once (the strategy starts at 12 so that 12 tokens can be held)
		c.Explore(c05Concurrent(kind, []int{12, 5, 9}, 12), mc.Options{PreemptBound: c.Pick(1, 2)})
	}
}
