package main

import (
	"fmt"
	"hash/fnv"
	"math"
	"os"
	"strings"
	"time"

	"github.com/platinummonkey/go-concurrency-limits/core"
	"github.com/platinummonkey/go-concurrency-limits/limit"
	"github.com/platinummonkey/go-concurrency-limits/limiter"
	"github.com/platinummonkey/go-concurrency-limits/strategy"

	"verif/mc"
	"verif/vrt"
	"verif/vrt/vctx"
	"verif/vrt/vtime"
)

// C09 — sampling windows: the algorithm sees each window once, aggregated exactly. Mode S,
// deviation-bounded histories on the (manual) virtual clock: every history of 26 completions that
// differs from the default completion in at most DB positions is executed against the real
// DefaultLimiter / WindowedLimit over a recording delegate, and the sequence of OnSample calls the
// delegate received (position in the history and arguments) is compared with a reference fold.

func init() { props["C09"] = runC09 }

// enumerate calls f with every vector of length n over menus of size m whose number of non-zero
// entries is at most db.
func enumerate(n, m, db int, f func(h []int)) {
	h := make([]int, n)
	var rec func(pos, left int)
	rec = func(pos, left int) {
		if pos == n {
			f(h)
			return
		}
		h[pos] = 0
		rec(pos+1, left)
		if left > 0 {
			for v := 1; v < m; v++ {
				h[pos] = v
				rec(pos+1, left-1)
			}
			h[pos] = 0
		}
	}
	rec(0, db)
}

type delivered struct {
	at int // index of the completion during which the delegate was called
	s  SampleRec
}

func (d delivered) String() string { return fmt.Sprintf("@%d%s", d.at, d.s) }

// ---- part 1: DefaultLimiter ----

type c09Cfg struct {
	minWin, maxWin int64
	threshold      int64
	ahead          int   // default limiter: how many requests are acquired ahead of the one being completed
	window         int   // window size (0 = 10, the smallest the constructors accept)
	rtt            int64 // windowed limit: RTT of the default sample (0 = 20 ms)
	reverse        bool  // default limiter, everything acquired up front: complete in reverse order of acquisition (in-flight at admission falls from window to window)
}

func (c c09Cfg) win() int {
	if c.window == 0 {
		return 10
	}
	return c.window
}

var c09Dev = []string{"default(success,2ms)", "drop", "ignore", "below-threshold", "exactly-threshold", "10x-longer", "overlap(in-flight 2)", "gap(one period)", "drop+gap", "drop-below-threshold"}

func c09Default(cfg c09Cfg, hist []int) (got, want []delivered, trace string) {
	vrt.ManualClock = 1_000_000_000
	n := len(hist)
	rec := &ScriptLimit{Traj: []int{64}}
	l, err := limiter.NewDefaultLimiter(rec, cfg.minWin, cfg.maxWin, cfg.threshold, cfg.win(), strategy.NewSimpleStrategy(64), limit.NoopLimitLogger{}, core.EmptyMetricRegistryInstance)
	if err != nil {
		panic(err)
	}
	ctx := vctx.Background()
	// cfg.ahead requests are acquired ahead of the one being completed (0 = strictly sequential): a
	// listener acquired before a window update and completed after it carries a stale snapshot of the
	// limiter's next update time.
	toks := make([]core.Listener, n)
	starts := make([]int64, n)
	infl := make([]int, n)
	outstanding, nextAcq := 0, 0
	acquireUpTo := func(k int) {
		for nextAcq <= k && nextAcq < n {
			tok, ok := l.Acquire(ctx)
			if !ok {
				panic("acquire refused")
			}
			outstanding++
			toks[nextAcq], starts[nextAcq], infl[nextAcq] = tok, vrt.ManualClock, outstanding
			nextAcq++
		}
	}
	// reference window
	refMin, refMax, refN, refDrop := int64(math.MaxInt64), 0, 0, false
	next := int64(0)
	reset := func() { refMin, refMax, refN, refDrop = math.MaxInt64, 0, 0, false }
	for i, d := range hist {
		dur := int64(2 * time.Millisecond)
		outcome := 0
		overlap := false
		switch d {
		case 1:
			outcome = 2
		case 2:
			outcome = 1
		case 3:
			if cfg.ahead == 0 {
				dur = cfg.threshold - 1
			}
		case 4:
			if cfg.ahead == 0 {
				dur = cfg.threshold
			}
		case 5:
			dur = 20 * int64(time.Millisecond)
		case 6:
			overlap = cfg.ahead == 0
		case 7:
			vrt.ManualClock += cfg.maxWin
		case 8:
			vrt.ManualClock += cfg.maxWin
			outcome = 2
		case 9:
			// a drop faster than the threshold still counts: only successful completions are filtered
			outcome = 2
			if cfg.ahead == 0 {
				dur = cfg.threshold - 1
			}
		}
		var extra core.Listener
		if overlap {
			extra, _ = l.Acquire(ctx)
			outstanding++
		}
		acquireUpTo(i + cfg.ahead)
		ti := i
		if cfg.reverse {
			acquireUpTo(n - 1)
			ti = n - 1 - i
		}
		tok := toks[ti]
		vrt.ManualClock += dur
		end := vrt.ManualClock
		rtt := end - starts[ti]
		before := len(rec.Samples)
		complete(tok, outcome)
		outstanding--
		for _, s := range rec.Samples[before:] {
			got = append(got, delivered{i, s})
		}
		if extra != nil {
			b2 := len(rec.Samples)
			extra.OnIgnore()
			outstanding--
			for _, s := range rec.Samples[b2:] {
				got = append(got, delivered{i, s})
			}
		}
		// reference
		added := false
		switch outcome {
		case 0:
			if rtt >= cfg.threshold {
				if rtt < refMin {
					refMin = rtt
				}
				if infl[ti] > refMax {
					refMax = infl[ti]
				}
				refN++
				added = true
			}
		case 2:
			refDrop = true
			if infl[ti] > refMax {
				refMax = infl[ti]
			}
			added = true
		}
		if added && end > next && refMin < math.MaxInt64 && refN > cfg.win() {
			want = append(want, delivered{i, SampleRec{0, refMin, refMax, refDrop}})
			w := 2 * refMin
			if w < cfg.minWin {
				w = cfg.minWin
			}
			if w > cfg.maxWin {
				w = cfg.maxWin
			}
			next = end + w
			reset()
		}
		vrt.ManualClock += int64(time.Millisecond) // think time between requests
	}
	return got, want, fmt.Sprint(hist)
}

// ---- part 2: WindowedLimit ----

var c09WDev = []string{"default(success,20ms,in-flight 11)", "drop", "below-threshold", "10x-longer", "in-flight 10", "in-flight 9", "gap(one period)", "drop in-flight 9", "in-flight 30", "drop-below-threshold"}

func c09Windowed(cfg c09Cfg, hist []int) (got, want []delivered, trace string) {
	rec := &ScriptLimit{Traj: []int{5}}
	w, err := limit.NewWindowedLimit("w", cfg.minWin, cfg.maxWin, int32(cfg.win()), cfg.threshold, rec, nil)
	if err != nil {
		panic(err)
	}
	refMin, refSum, refMax, refN, refDrop := int64(math.MaxInt64), int64(0), 0, 0, false
	next := int64(0)
	clock := int64(1_000_000_000)
	for i, d := range hist {
		rtt := int64(20 * time.Millisecond)
		if cfg.rtt != 0 {
			rtt = cfg.rtt
		}
		inflight := 11
		drop := false
		switch d {
		case 1:
			drop = true
		case 2:
			rtt = cfg.threshold - 1
		case 3:
			rtt = 200 * int64(time.Millisecond)
		case 4:
			inflight = 10
		case 5:
			inflight = 9
		case 6:
			clock += cfg.maxWin
		case 7:
			drop = true
			inflight = 9
		case 8:
			inflight = 30
		case 9:
			// the windowed limit discards every sample faster than the threshold, drops included
			drop = true
			rtt = cfg.threshold - 1
		}
		start := clock
		before := len(rec.Samples)
		w.OnSample(start, rtt, inflight, drop)
		for _, s := range rec.Samples[before:] {
			got = append(got, delivered{i, s})
		}
		end := start + rtt
		if rtt >= cfg.threshold {
			if inflight > refMax {
				refMax = inflight
			}
			if drop {
				refDrop = true
			} else {
				refN++
				refSum += rtt
				if rtt < refMin {
					refMin = rtt
				}
			}
			if end > next && inflight > cfg.win() {
				avg := int64(0)
				if refN > 0 {
					avg = refSum / int64(refN)
				}
				want = append(want, delivered{i, SampleRec{start, avg, refMax, refDrop}})
				if refN == 0 {
					// a window without successes has no candidate RTT: how long the next period is then is
					// not determined by the property (the code computes 2*MaxInt64) — stop the history here
					return got, want, fmt.Sprint(hist)
				}
				wl := refMin * 2
				if wl < cfg.minWin {
					wl = cfg.minWin
				}
				if wl > cfg.maxWin {
					wl = cfg.maxWin
				}
				next = end + wl
				refMin, refSum, refMax, refN, refDrop = math.MaxInt64, 0, 0, 0, false
			}
		}
		clock += 10 * int64(time.Millisecond)
	}
	return got, want, fmt.Sprint(hist)
}

func c09Compare(kind string, devNames []string, hist []int, got, want []delivered) (sig, msg string) {
	n := len(got)
	if len(want) < n {
		n = len(want)
	}
	describe := func() string {
		s := ""
		for i, d := range hist {
			if d != 0 {
				s += fmt.Sprintf(" [%d]=%s", i, devNames[d])
			}
		}
		if s == "" {
			s = " (all default)"
		}
		return s
	}
	for i := 0; i < n; i++ {
		g, w := got[i], want[i]
		if g.at != w.at {
			return kind + "/update-position", fmt.Sprintf("update %d was delivered during completion %d, the reference window closes at %d; deviations:%s", i, g.at, w.at, describe())
		}
		if d := g.s.RTT - w.s.RTT; d != 0 && !(strings.Contains(kind, "windowed") && d >= -1 && d <= 1) { // (the mean may be rounded either way)
			return kind + "/rtt-fold", fmt.Sprintf("update %d carried rtt=%d, the fold of the window is %d; deviations:%s", i, g.s.RTT, w.s.RTT, describe())
		}
		if g.s.InFlight != w.s.InFlight {
			return kind + "/inflight-fold", fmt.Sprintf("update %d carried in-flight=%d, the window's maximum is %d; deviations:%s", i, g.s.InFlight, w.s.InFlight, describe())
		}
		if g.s.Drop != w.s.Drop {
			return kind + "/drop-flag", fmt.Sprintf("update %d carried didDrop=%v, the window's drop flag is %v; deviations:%s", i, g.s.Drop, w.s.Drop, describe())
		}
	}
	if len(got) != len(want) {
		return kind + "/update-count", fmt.Sprintf("the delegate was updated %d times, the reference closes %d windows (got %v want %v); deviations:%s", len(got), len(want), got, want, describe())
	}
	return "", ""
}

func c09Run(c *Ctx, name string, cfg c09Cfg, devNames []string, db int, run func(c09Cfg, []int) ([]delivered, []delivered, string)) {
	params := fmt.Sprintf("minWindow=%dms maxWindow=%dms threshold=%dns windowSize=%d acquired-ahead=%d reverse-completion=%v default-rtt=%dms history=26 deviations<=%d of %v", cfg.minWin/1e6, cfg.maxWin/1e6, cfg.threshold, cfg.win(), cfg.ahead, cfg.reverse, cfg.rtt/1e6, db, devNames[1:])
	if c.replay != nil {
		if c.replay.Scenario == name && c.replay.Params == params {
			got, want, _ := run(cfg, c.replay.Choices)
			sig, msg := c09Compare(name, devNames, c.replay.Choices, got, want)
			fmt.Printf("replay %s %s\n history=%v\n delivered=%v\n reference=%v\n", name, params, c.replay.Choices, got, want)
			if sig != "" {
				fmt.Printf("  FAIL [%s] %s\nREPLAY: violation reproduced\n", sig, msg)
				os.Exit(1)
			}
			fmt.Println("REPLAY: no violation")
			os.Exit(0)
		}
		return
	}
	if c.only != "" && !strings.Contains(name+" "+params, c.only) {
		return
	}
	if !c.Mine() || c.expired() {
		return
	}
	start := time.Now()
	st := &mc.BFSStats{Model: name, Params: params, SigCounts: map[string]int{}, MaxDepth: 26, Depth: 26, Exhaustive: true}
	outcomes := map[uint64]struct{}{}
	sigSeen := map[string]bool{}
	enumerate(26, len(devNames), db, func(h []int) {
		got, want, _ := run(cfg, h)
		st.Transitions += int64(len(h))
		hh := fnv.New64a()
		fmt.Fprint(hh, got)
		outcomes[hh.Sum64()] = struct{}{}
		if len(got) > 0 {
			st.Nontrivial += int64(len(h))
		}
		if len(st.Samples) < 1 {
			var steps []mc.Step
			for i, d := range h {
				steps = append(steps, mc.Step{Op: d, Lbl: fmt.Sprintf("%d:%s", i, devNames[d])})
			}
			st.Samples = append(st.Samples, steps[:4])
		}
		if sig, msg := c09Compare(name, devNames, h, got, want); sig != "" {
			st.SigCounts[sig]++
			if !sigSeen[sig] {
				sigSeen[sig] = true
				st.Violations = append(st.Violations, &mc.Violation{Scenario: name, Params: params, Choices: append([]int{}, h...),
					Failures: []mc.Failure{{Sig: sig, Msg: msg}}, Notes: []string{fmt.Sprintf("delivered=%v", got), fmt.Sprintf("reference=%v", want)}})
			}
		}
	})
	st.States = len(outcomes)
	st.WallS = time.Since(start).Seconds()
	if c.verbose {
		fmt.Fprintf(os.Stderr, "%-28s %-70.70s histories=%d outcomes=%d viol=%v %.1fs\n", name, params, st.Transitions/26, st.States, st.SigCounts, st.WallS)
	}
	c.AddBFS(st)
}

func runC09(c *Ctx) {
	db := c.Pick(2, 3)
	for _, v := range []string{"drop", "short-success", "success"} {
		c.Explore(c09Concurrent(v), mc.Options{PreemptBound: c.Pick(3, -1), NoCache: true})
	}
	c09Run(c, "C09/default-limiter", c09Cfg{minWin: 10e6, maxWin: 20e6, threshold: 1, ahead: 0}, c09Dev, 3, c09Default)
	c09Run(c, "C09/windowed-limit", c09Cfg{minWin: 100e6, maxWin: 200e6, threshold: 1, ahead: 0}, c09WDev, 3, c09Windowed)
	for _, cfg := range []c09Cfg{{minWin: 10e6, maxWin: 10e6, threshold: 1, ahead: 0}, {minWin: 10e6, maxWin: 40e6, threshold: 1, ahead: 0}, {minWin: 10e6, maxWin: 10e6, threshold: 1e6, ahead: 0}, {minWin: 10e6, maxWin: 40e6, threshold: 1e6, ahead: 0}} {
		c09Run(c, "C09/default-limiter", cfg, c09Dev, db, c09Default)
		// pipelined and fully batched acquisition: listeners outlive window updates
		for _, ahead := range []int{5, 12, 25} {
			cfg.ahead = ahead
			c09Run(c, "C09/default-limiter", cfg, c09Dev, db, c09Default)
		}
	}
	// window periods from the middle (2 x candidate RTT) and the upper (maximum) branch of the clamp
	c09Run(c, "C09/default-limiter", c09Cfg{minWin: 1e6, maxWin: 10e6, threshold: 1}, c09Dev, db, c09Default)
	c09Run(c, "C09/default-limiter", c09Cfg{minWin: 1e6, maxWin: 3e6, threshold: 1}, c09Dev, db, c09Default)
	c09Run(c, "C09/default-limiter", c09Cfg{minWin: 1e6, maxWin: 10e6, threshold: 1, ahead: 12}, c09Dev, db, c09Default)
	c09Run(c, "C09/windowed-limit", c09Cfg{minWin: 100e6, maxWin: 400e6, threshold: 1, rtt: 80e6}, c09WDev, db, c09Windowed)
	c09Run(c, "C09/windowed-limit", c09Cfg{minWin: 100e6, maxWin: 120e6, threshold: 1, rtt: 80e6}, c09WDev, db, c09Windowed)
	// everything acquired up front and completed newest-first: operations outstanding when a window
	// closes were admitted at a higher in-flight than anything the next window folds
	c09Run(c, "C09/default-limiter", c09Cfg{minWin: 10e6, maxWin: 10e6, threshold: 1, ahead: 25, reverse: true}, c09Dev, db, c09Default)
	// a larger window size: 13 qualifying completions per window (default limiter), closing sample's
	// in-flight must exceed 12 (windowed limit; its default in-flight of 11 never closes, 30 does)
	c09Run(c, "C09/default-limiter", c09Cfg{minWin: 10e6, maxWin: 10e6, threshold: 1, window: 12}, c09Dev, db, c09Default)
	c09Run(c, "C09/default-limiter", c09Cfg{minWin: 10e6, maxWin: 10e6, threshold: 1, window: 12, ahead: 25}, c09Dev, db, c09Default)
	c09Run(c, "C09/windowed-limit", c09Cfg{minWin: 100e6, maxWin: 100e6, threshold: 1, window: 12}, c09WDev, db, c09Windowed)
	for _, cfg := range []c09Cfg{{minWin: 100e6, maxWin: 100e6, threshold: 1, ahead: 0}, {minWin: 100e6, maxWin: 400e6, threshold: 1, ahead: 0}, {minWin: 100e6, maxWin: 100e6, threshold: 1e6, ahead: 0}, {minWin: 100e6, maxWin: 400e6, threshold: 30e6, ahead: 0}} {
		c09Run(c, "C09/windowed-limit", cfg, c09WDev, db, c09Windowed)
	}
}

// ---- part 3: concurrent completions (Mode T) ----

// c09Completion is one completion as the reference sees it.
type c09Completion struct {
	rtt      int64
	inflight int
	outcome  int
	end      int64
}

// c09RefFold is the reference of the default limiter over completions in a given order.
func c09RefFold(cs []c09Completion, minWin, maxWin, threshold int64, win int) []SampleRec {
	var out []SampleRec
	refMin, refMax, refN, refDrop := int64(math.MaxInt64), 0, 0, false
	next := int64(0)
	for _, c := range cs {
		added := false
		switch c.outcome {
		case 0:
			if c.rtt >= threshold {
				if c.rtt < refMin {
					refMin = c.rtt
				}
				if c.inflight > refMax {
					refMax = c.inflight
				}
				refN++
				added = true
			}
		case 2:
			refDrop = true
			if c.inflight > refMax {
				refMax = c.inflight
			}
			added = true
		}
		if added && c.end > next && refMin < math.MaxInt64 && refN > win {
			out = append(out, SampleRec{0, refMin, refMax, refDrop})
			w := 2 * refMin
			if w < minWin {
				w = minWin
			}
			if w > maxWin {
				w = maxWin
			}
			next = c.end + w
			refMin, refMax, refN, refDrop = math.MaxInt64, 0, 0, false
		}
	}
	return out
}

// c09Concurrent: ten sequential successes leave the first window one completion short of ready;
// then completions A (success) and B (variant) run concurrently; then a second window is filled and
// closed sequentially. Whatever the interleaving, the delegate must have received what the
// reference fold yields for one of the two orders of A and B: a completion folded concurrently with
// the closing of a window belongs to that window or to the next one, never to neither.
func c09Concurrent(variant string) *mc.Scenario {
	const minWin, maxWin, threshold, win = int64(10e6), int64(10e6), int64(1), 10
	return &mc.Scenario{
		Name:   "C09/concurrent-completions",
		Params: "default limiter, window size 10, 10 sequential successes, then A=success || B=" + variant + ", then 11 sequential successes one period later",
		Cfg:    vrt.Config{MaxSteps: 4000},
		Body: func(x *mc.Exec) {
			rec := &ScriptLimit{Traj: []int{64}}
			l, err := limiter.NewDefaultLimiter(rec, minWin, maxWin, threshold, win, strategy.NewSimpleStrategy(64), limit.NoopLimitLogger{}, core.EmptyMetricRegistryInstance)
			if err != nil {
				panic(err)
			}
			ctx := vctx.Background()
			var hist []c09Completion
			seq := func(n int) {
				for i := 0; i < n; i++ {
					start := vrt.Now()
					tok, ok := l.Acquire(ctx)
					if !ok {
						x.Fail("setup", "acquire refused")
						return
					}
					vtime.Sleep(2 * time.Millisecond)
					tok.OnSuccess()
					hist = append(hist, c09Completion{rtt: vrt.Now() - start, inflight: 1, outcome: 0, end: vrt.Now()})
					vtime.Sleep(time.Millisecond)
				}
			}
			seq(10)
			// A and B are acquired now and completed concurrently 3 ms (B short: 1 ms) later
			startA := vrt.Now()
			tokA, okA := l.Acquire(ctx)
			if variant == "short-success" {
				vtime.Sleep(2 * time.Millisecond)
			}
			startB := vrt.Now()
			tokB, okB := l.Acquire(ctx)
			if !okA || !okB {
				x.Fail("setup", "acquire refused")
				return
			}
			vtime.Sleep(3*time.Millisecond - time.Duration(startB-startA))
			end := vrt.Now()
			a := c09Completion{rtt: end - startA, inflight: 1, outcome: 0, end: end}
			b := c09Completion{rtt: end - startB, inflight: 2, outcome: 0, end: end}
			if variant == "drop" {
				b.outcome = 2
			}
			ta := vrt.GoL("A", func() { tokA.OnSuccess() })
			tb := vrt.GoL("B", func() { complete(tokB, b.outcome) })
			vrt.Join(ta, tb)
			mid := len(hist)
			vtime.Sleep(time.Duration(maxWin))
			seq(11)
			var got []SampleRec
			got = append(got, rec.Samples...)
			x.Observe("delivered=%v", got)
			x.MarkConflict()
			var wants [][]SampleRec
			for _, order := range [][]c09Completion{{a, b}, {b, a}} {
				cs := append(append(append([]c09Completion{}, hist[:mid]...), order...), hist[mid:]...)
				wants = append(wants, c09RefFold(cs, minWin, maxWin, threshold, win))
			}
			for _, w := range wants {
				if fmt.Sprint(w) == fmt.Sprint(got) {
					return
				}
			}
			x.Fail("default-limiter/concurrent-completion-lost", "the delegate received %v; folding A then B gives %v, B then A gives %v", got, wants[0], wants[1])
		},
	}
}
