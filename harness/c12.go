package main

import (
	"fmt"
	"time"

	"github.com/platinummonkey/go-concurrency-limits/core"

	"verif/mc"
	"verif/vrt"
	"verif/vrt/vctx"
)

// C12 — the backlog is bounded and holds exactly the callers still blocked. Sequential part: the
// queue driver (qdriver.go) with small backlogs. Concurrent part (Mode T): arrivals racing for the
// last backlog slot, and give-ups (timeout on the eager clock, cancellation) racing hand-offs; at
// every quiescent state the queue_size gauge must equal the number of callers parked in Acquire.

func init() { props["C12"] = runC12 }

type c12Case struct {
	kind       string
	maxBacklog int
	callers    int
	release    bool // the holder completes during the run
	cancel     bool
	eager      bool
}

func c12Scenario(cs c12Case) *mc.Scenario {
	return &mc.Scenario{
		Name:   "C12/race/" + cs.kind,
		Params: fmt.Sprintf("maxBacklog=%d callers=%d release=%v cancel=%v eager-clock=%v", cs.maxBacklog, cs.callers, cs.release, cs.cancel, cs.eager),
		Cfg:    vrt.Config{Events: true, MaxSteps: 6000, EagerClock: cs.eager},
		Body: func(x *mc.Exec) {
			st := buildStack(cs.kind, 1, stackOpts{maxBacklog: cs.maxBacklog, timeout: 20 * time.Millisecond})
			ws := &waitState{st: st, inAcq: make([]bool, cs.callers), granted: make([]bool, cs.callers), returned: make([]bool, cs.callers),
				tid: make([]int, cs.callers), retClock: make([]int64, cs.callers)}
			x.Aux = ws
			h, ok := st.top.Acquire(waiterCtx(100))
			if !ok {
				x.Fail("setup", "holder could not acquire")
				return
			}
			var ths []*vrt.Thread
			if cs.release {
				ths = append(ths, vrt.GoL("H", func() { h.OnSuccess() }))
			}
			cancels := make([]vctx.CancelFunc, cs.callers)
			for i := 0; i < cs.callers; i++ {
				i := i
				var ctx vctx.Context
				ctx, cancels[i] = vctx.WithCancel(waiterCtx(i))
				ths = append(ths, vrt.GoL(fmt.Sprintf("W%d", i), func() {
					ws.tid[i] = vrt.Self().ID
					ws.inAcq[i] = true
					var l core.Listener
					l, ok := st.top.Acquire(ctx)
					ws.inAcq[i] = false
					ws.returned[i] = true
					ws.granted[i] = ok
					ws.retClock[i] = vrt.Now()
					if ok {
						l.OnSuccess()
					}
				}))
			}
			if cs.cancel {
				ths = append(ths, vrt.GoL("X", func() { cancels[0]() }))
			}
			vrt.Join(ths...)
			x.Observe("granted=%v clocks=%v", ws.granted, ws.retClock)
			x.MarkConflict()
			if q, ok := st.queueSize(); ok && q != 0 {
				x.Fail("queue/size-nonzero-at-end", "queue_size=%d after every caller returned", q)
			}
		},
		OnQuiescent: func(x *mc.Exec, s *vrt.Sched) {
			ws, _ := x.Aux.(*waitState)
			if ws == nil {
				return
			}
			parked := 0
			var who []int
			for i, in := range ws.inAcq {
				if in {
					parked++
					who = append(who, i)
				}
			}
			q, ok := -1, false
			if !s.TryCtl(func() { q, ok = ws.st.queueSize() }) || !ok {
				x.OracleSkipped++
				return
			}
			if parked > cs.maxBacklog {
				x.FailOnce("queue/backlog-over-bound", "%d callers %v are blocked although maxBacklog=%d (queue_size=%d)", parked, who, cs.maxBacklog, q)
			}
			if q > cs.maxBacklog {
				x.FailOnce("queue/backlog-over-bound", "queue_size=%d exceeds maxBacklog=%d", q, cs.maxBacklog)
			}
			if q < parked {
				x.FailOnce("queue/parked-but-evicted", "queue_size=%d but %d callers %v are blocked inside Acquire at t=%d; parked: %v", q, parked, who, s.Clock(), s.Blocked())
			} else if q > parked {
				x.FailOnce("queue/backlog-holds-departed", "queue_size=%d but only %d callers %v are blocked at t=%d", q, parked, who, s.Clock())
			}
		},
		Post: func(x *mc.Exec, r *vrt.Result) {
			if r.Stuck && !x.Failed() {
				x.Fail("stuck", "deadlock: %v", r.StuckInfo)
			}
		},
	}
}

func runC12(c *Ctx) {
	opt0 := mc.Options{PreemptBound: 0}
	depth := c.Pick(6, 7)
	for _, ct := range qCtors()[:2] {
		for _, mb := range []int{1, 2} {
			for _, evict := range []bool{false, true} {
				c.Explore(qdScenario(qdCase{prop: "C12", ctor: ct, limit: 1, maxBacklog: mb, timeout: 100 * time.Millisecond, evict: evict,
					maxArrive: c.Pick(4, 5), depth: depth}), opt0)
			}
		}
	}
	// the constructors that take the bound as an argument (deprecated FIFO/LIFO wrappers, generic pools)
	for _, ct := range []qCtor{qCtors()[3], qCtors()[4], qCtors()[8], qCtors()[9]} {
		c.Explore(qdScenario(qdCase{prop: "C12", ctor: ct, limit: 1, maxBacklog: 1, timeout: 100 * time.Millisecond, maxArrive: 4, depth: c.Pick(5, 6)}), opt0)
	}
	for _, fp := range []string{"fifo", "lifo"} {
		c.Explore(qdScenario(qdCase{prop: "C12", fixedPool: fp, limit: 1, maxBacklog: 1, timeout: 100 * time.Millisecond, maxArrive: 4, depth: depth}), opt0)
	}
	pb := c.Pick(2, 3)
	for _, kind := range []string{"queue-fifo", "queue-lifo", "queue-fifo-evict", "queue-lifo-evict"} {
		// two (three) arrivals racing for the last slot; nobody releases
		c.Explore(c12Scenario(c12Case{kind: kind, maxBacklog: 1, callers: 2}), mc.Options{PreemptBound: pb})
		c.Explore(c12Scenario(c12Case{kind: kind, maxBacklog: 2, callers: 3}), mc.Options{PreemptBound: c.Pick(1, 2)})
		// a give-up racing a hand-off
		c.Explore(c12Scenario(c12Case{kind: kind, maxBacklog: 2, callers: 1, release: true, eager: true}), mc.Options{PreemptBound: pb})
		c.Explore(c12Scenario(c12Case{kind: kind, maxBacklog: 2, callers: 2, release: true, eager: true}), mc.Options{PreemptBound: c.Pick(1, 2)})
		if kind == "queue-fifo-evict" || kind == "queue-lifo-evict" {
			c.Explore(c12Scenario(c12Case{kind: kind, maxBacklog: 2, callers: 2, release: true, cancel: true}), mc.Options{PreemptBound: pb})
		}
	}
}
