package main

import (
	"fmt"
	"sort"
	"time"

	"verif/mc"
	"verif/vrt"
	"verif/vrt/vctx"
	"verif/vrt/vtime"
)

// C19 — pools: never more than the limit held, every queued caller eventually served. Mode T,
// lazy clock: N > limit callers each Acquire, hold (a schedule point) and complete; all
// interleavings within the preemption bound.

func init() { props["C19"] = runC19 }

type c19Case struct {
	kind    string
	limit   int
	callers int
	hold    time.Duration // how long each holder keeps its token (0 = a schedule point only)
	backlog int           // maximum backlog (0 = 10)
	timeout time.Duration // backlog timeout given to the pool (0 = 1 s, which is also the library's default)
	cancel1 bool          // caller 1's context is cancelled at 100 ms (pools do not evict on cancel: the line must keep moving)
	eager   bool          // backlog timeouts may fire at any point (a caller giving up while it is being handed a token)
	warm    int           // the pool has served this many callers one after the other (150 ms each) before the crowd arrives
}

func c19Scenario(cs c19Case) *mc.Scenario {
	return &mc.Scenario{
		Name:   "C19/" + cs.kind,
		Params: fmt.Sprintf("limit=%d callers=%d backlog=%d timeout=%v hold=%v eager-clock=%v caller-1-cancelled=%v", cs.limit, cs.callers, cs.bl(), cs.to(), cs.hold, cs.eager, cs.cancel1) + map[bool]string{true: fmt.Sprintf(" served-before=%d", cs.warm), false: ""}[cs.warm > 0],
		Cfg:    vrt.Config{Events: true, MaxSteps: 6000, EagerClock: cs.eager, Horizon: int64(10 * time.Second)},
		Body: func(x *mc.Exec) {
			st := buildStack(cs.kind, cs.limit, stackOpts{maxBacklog: cs.bl(), timeout: cs.to()})
			ws := &waitState{st: st, inAcq: make([]bool, cs.callers), granted: make([]bool, cs.callers), returned: make([]bool, cs.callers),
				tid: make([]int, cs.callers), retClock: make([]int64, cs.callers)}
			// a pool that has been in use: the limiter's sampling window closes with its next sample (more than 10 samples), so
			// one of the releases below also runs the limit update
			for k := 0; k < cs.warm; k++ {
				l, ok := st.top.Acquire(waiterCtx(200 + k))
				if !ok || l == nil {
					x.Fail("not-granted", "an idle pool refused caller %d of the warm-up", k+1)
					return
				}
				vtime.Sleep(150 * time.Millisecond)
				l.OnSuccess()
			}
			base := vrt.Now()
			x.Aux = ws
			holders := 0
			maxHolders := 0
			var ths []*vrt.Thread
			for i := 0; i < cs.callers; i++ {
				i := i
				cctx := waiterCtx(i)
				if cs.cancel1 && i == 1 {
					c2, cancel := vctx.WithCancel(cctx)
					cctx = c2
					vrt.GoL("X", func() { vtime.Sleep(100 * time.Millisecond); cancel() })
				}
				ths = append(ths, vrt.GoL(fmt.Sprintf("C%d", i), func() {
					ws.tid[i] = vrt.Self().ID
					ws.inAcq[i] = true
					l, ok := st.top.Acquire(cctx)
					ws.inAcq[i] = false
					ws.returned[i] = true
					ws.granted[i] = ok
					ws.retClock[i] = vrt.Now() - base
					if ok != (l != nil) {
						x.Fail("listener-iff-ok", "listener=%v ok=%v", l != nil, ok)
					}
					if !ok {
						return
					}
					holders++
					if holders > maxHolders {
						maxHolders = holders
					}
					if holders > cs.limit {
						x.Fail("over-limit", "%d tokens are held at once, the pool's limit is %d", holders, cs.limit)
					}
					if cs.hold > 0 {
						vtime.Sleep(cs.hold)
					} else {
						vrt.Yield() // hold
					}
					holders--
					complete(l, i%3)
				}))
			}
			vrt.Join(ths...)
			x.Observe("granted=%v clocks=%v maxHolders=%d", ws.granted, ws.retClock, maxHolders)
			x.MarkConflict()
		},
		OnQuiescent: func(x *mc.Exec, s *vrt.Sched) {
			ws, _ := x.Aux.(*waitState)
			if ws == nil {
				return
			}
			blocked, busy, lim, ok := ws.blockedFree(s)
			if !ok {
				x.OracleSkipped++
				return
			}
			if len(blocked) == 0 {
				return
			}
			sigs := map[string]bool{}
			for _, wi := range blocked {
				sigs[classify(ws.st.family, s, ws, wi)] = true
			}
			var ks []string
			for k := range sigs {
				ks = append(ks, k)
			}
			sort.Strings(ks)
			for _, k := range ks {
				x.FailOnce(k, "pool callers %v are parked inside Acquire at virtual time %d while capacity is free (busy=%d < limit=%d); parked: %v",
					blocked, s.Clock(), busy, lim, s.Blocked())
			}
		},
		Post: func(x *mc.Exec, r *vrt.Result) {
			if r.Stuck && !x.Failed() {
				x.Fail("stuck", "deadlock: %v", r.StuckInfo)
			}
			if x.Failed() || cs.eager {
				// (eager clock: a caller whose timeout fired is refused legitimately; what remains is the
				// quiescence oracle — nobody stays parked while a slot is free — and the holder count)
				return
			}
			if ws, _ := x.Aux.(*waitState); ws != nil {
				for i, g := range ws.granted {
					if cs.cancel1 && i == 1 {
						continue // whether a cancelled caller keeps its claim is the pool's business
					}
					if !g {
						x.Fail("not-granted", "caller %d was refused although callers <= limit + backlog and every holder releases", i)
					} else if cs.hold == 0 && ws.retClock[i] != 0 {
						x.Fail("needed-time", "caller %d was granted only at virtual time %d (needed a timeout)", i, ws.retClock[i])
					}
				}
				if cs.hold > 0 && !x.Failed() && !cs.cancel1 {
					// every holder keeps its token for the same time: the k-th grant happens when the
					// (k-limit)-th holder releases, i.e. at floor(k/limit) hold times
					cl := append([]int64{}, ws.retClock...)
					sort.Slice(cl, func(a, b int) bool { return cl[a] < cl[b] })
					for k, at := range cl {
						if want := int64(k/cs.limit) * int64(cs.hold); at != want {
							x.Fail("grant-late", "the %d-th grant happened at virtual time %d, capacity was released for it at %d (grant instants %v)", k+1, at, want, cl)
							break
						}
					}
				}
			}
		},
	}
}

func (cs c19Case) to() time.Duration {
	if cs.timeout == 0 {
		return time.Second
	}
	return cs.timeout
}

func (cs c19Case) bl() int {
	if cs.backlog == 0 {
		return 10
	}
	return cs.backlog
}

func runC19(c *Ctx) {
	pb := c.Pick(3, 4)
	for _, kind := range []string{"fixedpool-random", "fixedpool-fifo", "fixedpool-lifo", "pool-random", "pool-fifo", "pool-lifo"} {
		c.Explore(c19Scenario(c19Case{kind: kind, limit: 1, callers: 2}), mc.Options{PreemptBound: pb})
		c.Explore(c19Scenario(c19Case{kind: kind, limit: 1, callers: 3}), mc.Options{PreemptBound: c.Pick(2, 3)})
		c.Explore(c19Scenario(c19Case{kind: kind, limit: 2, callers: 3}), mc.Options{PreemptBound: c.Pick(2, 3)})
		// holders keep their tokens for 300 ms of virtual time (three generations fit into the 1 s timeout)
		c.Explore(c19Scenario(c19Case{kind: kind, limit: 1, callers: 3, hold: 300 * time.Millisecond}), mc.Options{PreemptBound: 2})
		// the same on a pool whose sampling window closes during one of the releases
		c.Explore(c19Scenario(c19Case{kind: kind, limit: 1, callers: 3, hold: 300 * time.Millisecond, warm: 10}), mc.Options{PreemptBound: 2})
		// a queued caller's context is cancelled while it waits; the holder releases later
		c.Explore(c19Scenario(c19Case{kind: kind, limit: 1, callers: 3, hold: 300 * time.Millisecond, cancel1: true}), mc.Options{PreemptBound: c.Pick(1, 2)})
		// a timeout above the library's default: the third caller is served after 1.4 s, inside the 2 s it was given
		c.Explore(c19Scenario(c19Case{kind: kind, limit: 1, callers: 3, hold: 700 * time.Millisecond, timeout: 2 * time.Second}), mc.Options{PreemptBound: c.Pick(1, 2)})
		// exactly as many callers as limit + backlog: nobody may be turned away
		c.Explore(c19Scenario(c19Case{kind: kind, limit: 1, callers: 3, backlog: 2}), mc.Options{PreemptBound: 2})
		// a queued caller's timeout fires while it is being handed a token: the callers behind it must
		// still be served
		c.ExploreBig(c19Scenario(c19Case{kind: kind, limit: 1, callers: 3, eager: true}), mc.Options{PreemptBound: 2})
		if c.Thorough() {
			c.ExploreBig(c19Scenario(c19Case{kind: kind, limit: 2, callers: 4}), mc.Options{PreemptBound: 2})
			c.ExploreBig(c19Scenario(c19Case{kind: kind, limit: 2, callers: 4, backlog: 2, hold: 300 * time.Millisecond}), mc.Options{PreemptBound: 1})
		}
	}
}
