package main

import (
	"fmt"
	"sort"
	"time"

	"github.com/platinummonkey/go-concurrency-limits/core"

	"verif/mc"
	"verif/vrt"
	"verif/vrt/vctx"
	"verif/vrt/vtime"
)

// C10 — no lost wake-up or hand-off. Mode T with the lazy clock: no timer fires while a thread can
// run, so "the caller needs a timeout to get out" is visible as a quiescent state in which a caller
// is parked inside Acquire while the strategy has free capacity.

func init() { props["C10"] = runC10 }

type waitCase struct {
	kind       string
	limit      int
	waiters    int
	outcome    int           // holder's completion outcome
	lateBy     time.Duration // the holder sleeps this long before completing (0 = races with the waiters)
	cofire     bool          // wake-ups of one instant are concurrent: a release due at the instant of a poll timeout races the waiter's re-registration
	prop       string
	holders2   bool // both holders complete (limit 2)
	noTimer    bool // queue kinds: MaxBacklogTimeout < 0, the waiter selects on a nil timer channel
	eager      bool // timeouts may fire at any point: a waiter gives up while it is being handed the token; the one behind it must be served
	cancelRace bool // waiter 0's context is cancelled concurrently with the release (eviction-on-cancel kinds): the waiter behind it must still be served
	abandon    bool // waiter 0 is cancelled at 10 ms and leaves (its helper stays parked on the condition); the others must still be woken
}

// waitState is the ghost state shared by the threads of one execution.
type waitState struct {
	st       *stack
	inAcq    []bool
	granted  []bool
	returned []bool
	tid      []int // thread id of each waiter
	retClock []int64
}

// blockedFree evaluates the oracle: returns the waiters parked inside Acquire while capacity is free.
func (w *waitState) blockedFree(s *vrt.Sched) (blocked []int, busy, lim int, ok bool) {
	ok = s.TryCtl(func() { busy, lim = w.st.busy() })
	if !ok {
		return nil, 0, 0, false
	}
	if busy >= lim {
		return nil, busy, lim, true
	}
	for i, in := range w.inAcq {
		if in {
			blocked = append(blocked, i)
		}
	}
	return blocked, busy, lim, true
}

// classify computes the violation signature for waiter wi, stuck while capacity is free, from the
// event log (public seams: delegate attempts/completions, condition wake-ups, non-blocking sends).
func classify(fam string, s *vrt.Sched, ws *waitState, wi int) string {
	ev := s.Events()
	tid := ws.tid[wi]
	// last failed delegate attempt made by the waiter's own thread for itself
	last := -1
	for i, e := range ev {
		if e.Kind == "deleg.acquire" && e.Thread == tid && e.A[1] == 0 {
			last = i
		}
	}
	if last < 0 {
		return fam + "/parked-not-woken"
	}
	switch fam {
	case "blocking", "deadline":
		// helper = the most recent live child thread of the waiter
		helper := -1
		for _, t := range s.Threads() {
			if t.Parent != nil && t.Parent.ID == tid && !t.Done() {
				helper = t.ID
			}
		}
		wakes, reached := 0, false
		for _, e := range ev[last+1:] {
			if e.Kind != "cond.wake" {
				continue
			}
			wakes++
			// A = [nWoken, woken..., -1, rest...]
			for _, id := range e.A[1:] {
				if id == helper && helper >= 0 {
					reached = true // the helper was registered when this wake-up was issued
				}
			}
		}
		if wakes > 0 && !reached {
			return fam + "/wake-before-registered"
		}
		return fam + "/parked-not-woken"
	case "queue":
		return classifyQueue(ev, ws)
	}
	return fam + "/parked-not-woken"
}

// classifyQueue names the violating state of a queue limiter by its latest release: what did the
// releasing thread do with the freed capacity?
func classifyQueue(ev []vrt.Event, ws *waitState) string {
	last := -1
	for i, e := range ev {
		if e.Kind == "deleg.complete" {
			last = i
		}
	}
	if last < 0 {
		return "queue/parked-not-woken"
	}
	E := ev[last]
	rt := E.Thread
	if E.A[1] == 1 {
		// an OnIgnore: is it the releasing thread giving back a token it could not hand over?
		target, failedSend := -1, false
		for j := last - 1; j >= 0; j-- {
			f := ev[j]
			if f.Thread != rt {
				continue
			}
			if f.Kind == "trysend" {
				failedSend = f.A[1] < 0
				continue
			}
			if f.Kind == "deleg.acquire" {
				if f.A[1] == 1 {
					target = f.A[0]
				}
				break
			}
			if f.Kind == "deleg.complete" {
				break
			}
		}
		if failedSend && target >= 0 && target < len(ws.returned) {
			if ws.returned[target] {
				return "queue/handoff-to-departed-head"
			}
			return "queue/handoff-dropped"
		}
	}
	for _, f := range ev[last+1:] {
		if f.Thread == rt && f.Kind == "deleg.acquire" {
			return "queue/parked-not-woken"
		}
	}
	if len(E.A) > 3 && E.A[3] == 0 {
		return "queue/release-saw-no-waiter"
	}
	return "queue/release-ignored-backlog"
}

func waitScenario(cs waitCase) *mc.Scenario {
	name := fmt.Sprintf("%s/wake/%s", cs.prop, cs.kind)
	return &mc.Scenario{
		Name:   name,
		Params: fmt.Sprintf("limit=%d waiters=%d holder-outcome=%s late=%v both-holders=%v no-backlog-timeout=%v first-waiter-abandons=%v eager-clock=%v cancel-races-release=%v", cs.limit, cs.waiters, outcomeNames[cs.outcome], cs.lateBy, cs.holders2, cs.noTimer, cs.abandon, cs.eager, cs.cancelRace) + map[bool]string{true: " concurrent-instants", false: ""}[cs.cofire],
		Cfg:    vrt.Config{Events: true, MaxSteps: 4000, EagerClock: cs.eager, Horizon: int64(10 * time.Second), CoFire: cs.cofire},
		Body: func(x *mc.Exec) {
			so := stackOpts{}
			if cs.noTimer {
				so.timeout = -1
			}
			st := buildStack(cs.kind, cs.limit, so)
			ws := &waitState{st: st, inAcq: make([]bool, cs.waiters), granted: make([]bool, cs.waiters),
				returned: make([]bool, cs.waiters), tid: make([]int, cs.waiters), retClock: make([]int64, cs.waiters)}
			x.Aux = ws
			// holders take the whole limit through the wrapper under test
			var held []core.Listener
			for i := 0; i < cs.limit; i++ {
				l, ok := st.top.Acquire(waiterCtx(100 + i))
				if !ok {
					x.Fail("setup", "holder could not acquire")
					return
				}
				held = append(held, l)
			}
			var ths []*vrt.Thread
			nh := 1
			if cs.holders2 {
				nh = len(held)
			}
			for h := 0; h < nh; h++ {
				h := h
				ths = append(ths, vrt.GoL(fmt.Sprintf("H%d", h), func() {
					if cs.lateBy > 0 {
						vtime.Sleep(cs.lateBy)
					}
					complete(held[h], cs.outcome)
				}))
			}
			for i := 0; i < cs.waiters; i++ {
				i := i
				wctx := waiterCtx(i)
				if cs.abandon && i == 0 {
					c2, cancel := vctx.WithCancel(wctx)
					wctx = c2
					ths = append(ths, vrt.GoL("X", func() { vtime.Sleep(10 * time.Millisecond); cancel() }))
				}
				if cs.cancelRace && i == 0 {
					c2, cancel := vctx.WithCancel(wctx)
					wctx = c2
					ths = append(ths, vrt.GoL("X", func() { cancel() }))
				}
				t := vrt.GoL(fmt.Sprintf("W%d", i), func() {
					if cs.abandon && i > 0 {
						vtime.Sleep(20 * time.Millisecond) // arrives after the first waiter has left
					}
					ws.tid[i] = vrt.Self().ID
					ws.inAcq[i] = true
					l, ok := st.top.Acquire(wctx)
					ws.inAcq[i] = false
					ws.returned[i] = true
					ws.retClock[i] = vrt.Now()
					if ok != (l != nil) {
						x.Fail("listener-iff-ok", "Acquire returned listener=%v ok=%v", l != nil, ok)
					}
					if ok {
						ws.granted[i] = true
						l.OnSuccess()
					}
				})
				ths = append(ths, t)
			}
			vrt.Join(ths...)
			g := ""
			for i := range ws.granted {
				g += fmt.Sprintf("%v@%d ", ws.granted[i], ws.retClock[i])
			}
			x.Observe("granted=%s", g)
			x.MarkConflict()
		},
		OnQuiescent: func(x *mc.Exec, s *vrt.Sched) {
			ws, _ := x.Aux.(*waitState)
			if ws == nil {
				return
			}
			blocked, busy, lim, ok := ws.blockedFree(s)
			if !ok {
				x.Note("oracle read skipped (lock held at quiescence)")
				x.OracleSkipped++
				return
			}
			if len(blocked) == 0 {
				return
			}
			sigs := map[string]bool{}
			for _, wi := range blocked {
				sigs[classify(ws.st.family, s, ws, wi)] = true
			}
			var ks []string
			for k := range sigs {
				ks = append(ks, k)
			}
			sort.Strings(ks)
			for _, k := range ks {
				x.FailOnce(k, "waiters %v are parked inside Acquire at virtual time %d while capacity is free (busy=%d < limit=%d); parked threads: %v",
					blocked, s.Clock(), busy, lim, s.Blocked())
			}
		},
		Post: func(x *mc.Exec, r *vrt.Result) {
			if r.Stuck && !x.Failed() {
				x.Fail("stuck", "execution deadlocked: %v", r.StuckInfo)
			}
			if cs.lateBy == 0 && !x.Failed() && !cs.eager && !cs.cancelRace {
				// first variant: everybody is served without any virtual time elapsing
				if ws, _ := x.Aux.(*waitState); ws != nil {
					for i, g := range ws.granted {
						if !g {
							x.Fail("not-granted", "waiter %d was not granted although the holder released and everyone completes", i)
						} else if ws.retClock[i] != 0 {
							x.Fail("needed-time", "waiter %d was granted only at virtual time %d", i, ws.retClock[i])
						}
					}
				}
			}
		},
	}
}

func runC10(c *Ctx) {
	pb := c.Pick(2, 3)
	opt := mc.Options{PreemptBound: pb, DevBound: 0}
	for _, kind := range blockingKinds {
		for outcome := 0; outcome < 3; outcome++ {
			for w := 1; w <= c.Pick(2, 3); w++ {
				if w == 3 && outcome != 0 {
					continue
				}
				if w == 3 {
					// three waiters (thorough tier): split over the workers, preemption bound 2
					c.ExploreBig(waitScenario(waitCase{prop: "C10", kind: kind, limit: 1, waiters: w, outcome: outcome}), mc.Options{PreemptBound: 2})
					continue
				}
				c.Explore(waitScenario(waitCase{prop: "C10", kind: kind, limit: 1, waiters: w, outcome: outcome}), opt)
			}
		}
		if c.Thorough() {
			c.Explore(waitScenario(waitCase{prop: "C10", kind: kind, limit: 2, waiters: 2, outcome: 0, holders2: true}), opt)
		} else {
			// limit 2, both holders release, two waiters: one preemption
			c.Explore(waitScenario(waitCase{prop: "C10", kind: kind, limit: 2, waiters: 2, outcome: 2, holders2: true}), mc.Options{PreemptBound: 1})
		}
	}
	// queue limiter without a backlog timeout: nothing but the hand-off can ever wake the waiter
	for _, kind := range []string{"queue-fifo", "queue-lifo-evict"} {
		c.Explore(waitScenario(waitCase{prop: "C10", kind: kind, limit: 1, waiters: 2, outcome: 1, noTimer: true}), opt)
		c.Explore(waitScenario(waitCase{prop: "C10", kind: kind, limit: 1, waiters: 1, outcome: 0, noTimer: true, lateBy: 60 * time.Millisecond}), opt)
	}
	// a waiter's timeout fires at any point of the hand-off: whoever is behind it must not be stranded
	for _, kind := range []string{"queue-fifo", "queue-lifo"} {
		c.Explore(waitScenario(waitCase{prop: "C10", kind: kind, limit: 1, waiters: 2, outcome: 0, eager: true}), mc.Options{PreemptBound: c.Pick(2, 3)})
	}
	// a waiter's context is cancelled while the release is under way (eviction on cancel): the release
	// must not be spent on the departing caller while somebody else waits
	for _, kind := range []string{"queue-fifo-evict", "queue-lifo-evict"} {
		for outcome := 0; outcome < 3; outcome++ {
			c.Explore(waitScenario(waitCase{prop: "C10", kind: kind, limit: 1, waiters: 2, outcome: outcome, cancelRace: true}), opt)
		}
	}
	// an abandoned waiter's helper is still parked on the condition when the release arrives: the
	// wake-up must reach the live waiter whatever the outcome of the release
	for _, kind := range []string{"blocking0", "blocking50", "deadline"} {
		for outcome := 0; outcome < 3; outcome++ {
			c.Explore(waitScenario(waitCase{prop: "C10", kind: kind, limit: 1, waiters: 2, outcome: outcome, lateBy: 40 * time.Millisecond, abandon: true}), opt)
		}
	}
	// stale helpers: one poll period elapses before the release
	c.Explore(waitScenario(waitCase{prop: "C10", kind: "blocking50", limit: 1, waiters: 1, outcome: 0, lateBy: 60 * time.Millisecond}), opt)
	c.ExploreBig(waitScenario(waitCase{prop: "C10", kind: "blocking50", limit: 1, waiters: 2, outcome: 0, lateBy: 60 * time.Millisecond}),
		mc.Options{PreemptBound: c.Pick(1, 2), DevBound: 0})
	c.Explore(waitScenario(waitCase{prop: "C10", kind: "queue-fifo", limit: 1, waiters: 2, outcome: 0, lateBy: 60 * time.Millisecond}), opt)
	// the release falls on the very instant of the waiter's poll timeout: it races the waiter's trip
	// round the loop (timer wake-up, retry, re-registration)
	for outcome := 0; outcome < 3; outcome++ {
		c.Explore(waitScenario(waitCase{prop: "C10", kind: "blocking50", limit: 1, waiters: 1, outcome: outcome, lateBy: 50 * time.Millisecond, cofire: true}), opt)
	}
}
