package main

import (
	"fmt"
	"math"
	"reflect"
	"strings"

	"github.com/platinummonkey/go-concurrency-limits/core"
	"github.com/platinummonkey/go-concurrency-limits/measurements"

	"verif/mc"
	"verif/vrt"
)

// C18 — measurement primitives compute what they name, reset cleanly and report changes. Mode S
// over Add/Get/Reset/Update sequences with reference folds, plus a twin check after every Reset
// (the instance and a fresh one receive every continuation of length <= 3 and must agree).

func init() { props["C18"] = runC18 }

type c18Kind struct {
	name string
	mk   func() core.MeasurementInterface
	// warmup returns the number of initial samples whose Get must be the arithmetic mean (0 = n/a)
	warmup int
	fold   string // min | last | mean-then-hull | variance | none
}

func c18Kinds() []c18Kind {
	ema := func(a float64) func() core.MeasurementInterface {
		return func() core.MeasurementInterface {
			m, err := measurements.NewSimpleExponentialMovingAverage(a)
			if err != nil {
				panic(err)
			}
			return m
		}
	}
	return []c18Kind{
		{name: "Minimum", mk: func() core.MeasurementInterface { return &measurements.MinimumMeasurement{} }, fold: "min"},
		{name: "Single", mk: func() core.MeasurementInterface { return &measurements.SingleMeasurement{} }, fold: "last"},
		{name: "ExponentialAverage(3,1)", mk: func() core.MeasurementInterface { return measurements.NewExponentialAverageMeasurement(3, 1) }, warmup: 1, fold: "mean-then-hull"},
		{name: "ExponentialAverage(10,3)", mk: func() core.MeasurementInterface { return measurements.NewExponentialAverageMeasurement(10, 3) }, warmup: 3, fold: "mean-then-hull"},
		{name: "SimpleEMA(0.2)", mk: ema(0.2), warmup: 5, fold: "mean-then-hull"},
		{name: "SimpleEMA(0.5)", mk: ema(0.5), warmup: 2, fold: "mean-then-hull"},
		{name: "SimpleEMA(1)", mk: ema(1), warmup: 1, fold: "mean-then-hull"},
		// smoothing factors whose reciprocal is not an integer (the first sample alone is always its own mean)
		{name: "SimpleEMA(0.3)", mk: ema(0.3), warmup: 1, fold: "mean-then-hull"},
		{name: "SimpleEMA(0.6)", mk: ema(0.6), warmup: 1, fold: "mean-then-hull"},
		{name: "SimpleMovingVariance(0.8)", mk: func() core.MeasurementInterface {
			m, err := measurements.NewSimpleMovingVariance(0.8, 0.8)
			if err != nil {
				panic(err)
			}
			return m
		}, fold: "variance"},
		{name: "SimpleMovingVariance", mk: func() core.MeasurementInterface {
			m, err := measurements.NewSimpleMovingVariance(0.5, 0.5)
			if err != nil {
				panic(err)
			}
			return m
		}, fold: "variance"},
		{name: "WindowlessMovingPercentile(0.5)", mk: func() core.MeasurementInterface {
			m, err := measurements.NewWindowlessMovingPercentile(0.5, 0.01, 0.5, 0.5)
			if err != nil {
				panic(err)
			}
			return m
		}, fold: "none"},
		{name: "WindowlessMovingPercentile(0.9)", mk: func() core.MeasurementInterface {
			m, err := measurements.NewWindowlessMovingPercentile(0.9, 0.01, 0.05, 0.05)
			if err != nil {
				panic(err)
			}
			return m
		}, fold: "none"},
	}
}

type c18State struct {
	k          c18Kind
	m          core.MeasurementInterface
	n          int     // samples since reset (injected ones included)
	min, max   float64 // hull of samples since reset
	sum        float64
	last       float64
	pureAdds   bool // only Add operations since reset (arithmetic-mean check applies)
	afterReset bool
}

type c18Op struct {
	name string
	kind string
	v    float64
}

var c18Ops = []c18Op{
	{"Add(1)", "add", 1}, {"Add(2)", "add", 2}, {"Add(5)", "add", 5}, {"Add(1e9)", "add", 1e9}, {"Add(0)", "add", 0},
	{"Get()", "get", 0}, {"Reset()", "reset", 0}, {"Update(identity)", "upd", 1}, {"Update(x0.9)", "upd", 0.9},
}

func (s *c18State) inject(v float64) {
	if s.n == 0 {
		s.min, s.max = v, v
	}
	s.n++
	s.sum += v
	s.last = v
	if v < s.min {
		s.min = v
	}
	if v > s.max {
		s.max = v
	}
}

func (s *c18State) apply(o c18Op, t *mc.Tr) (ret float64, flag bool) {
	name := s.k.name
	before := s.m.Get()
	s.afterReset = false
	if o.kind == "add" && o.v == 0 && s.k.fold == "min" {
		return 0, false // MinimumMeasurement encodes "no sample yet" as 0 (its documented use is RTTs > 0)
	}
	switch o.kind {
	case "add":
		ret, flag = s.m.Add(o.v)
		after := s.m.Get()
		s.inject(o.v)
		if after != before && !flag {
			t.Fail(name+"/changed-flag", "Add(%v) changed the stored value %v -> %v but returned changed=false", o.v, before, after)
		}
		if s.k.fold != "variance" && ret != after {
			t.Fail(name+"/add-return", "Add(%v) returned %v but Get() is %v", o.v, ret, after)
		}
		t.Nontrivial = true
	case "get":
		ret = s.m.Get()
	case "reset":
		s.m.Reset()
		s.n, s.sum, s.pureAdds = 0, 0, true
		s.afterReset = true
		if g, fresh := s.m.Get(), s.k.mk().Get(); g != fresh {
			t.Fail(name+"/reset-value", "Get() after Reset() is %v, a new instance reports %v", g, fresh)
		}
		return 0, false
	case "upd":
		f := o.v
		s.m.Update(func(v float64) float64 { return v * f })
		ret = s.m.Get()
		s.pureAdds = false
		// the result of Update counts as an injected sample for the hull; types that first re-add
		// their own value inject that as well
		if s.k.fold == "min" {
			// Minimum encodes "unset" as 0: an Update of an unset instance adds nothing
			if ret != 0 {
				s.inject(ret)
			}
		} else {
			s.inject(before)
			s.inject(ret)
		}
	}
	s.check(t, o)
	return ret, flag
}

func (s *c18State) check(t *mc.Tr, o c18Op) {
	name := s.k.name
	g := s.m.Get()
	if math.IsNaN(g) || math.IsInf(g, 0) {
		t.Fail(name+"/not-finite", "Get() = %v after %s", g, o.name)
		return
	}
	if s.n == 0 {
		return
	}
	eps := 1e-9 * math.Max(1, math.Abs(s.max))
	switch s.k.fold {
	case "min":
		// (an Update result counts as a sample: the alphabet's update functions never raise the value,
		// so the stored value stays the minimum of everything injected since the reset)
		if g != s.min {
			t.Fail(name+"/not-minimum", "Get() = %v, minimum of the %d samples (and Update results) since reset is %v", g, s.n, s.min)
		}
	case "last":
		if g != s.last {
			t.Fail(name+"/not-latest", "Get() = %v, latest value is %v", g, s.last)
		}
	case "mean-then-hull":
		if s.pureAdds && s.n <= s.k.warmup {
			if mean := s.sum / float64(s.n); math.Abs(g-mean) > eps {
				t.Fail(name+"/warmup-not-mean", "during warm-up (%d of %d samples) Get() = %v, arithmetic mean is %v", s.n, s.k.warmup, g, mean)
			}
		}
		if g < s.min-eps || g > s.max+eps {
			t.Fail(name+"/outside-hull", "Get() = %v is outside [%v, %v] of the samples since reset", g, s.min, s.max)
		}
	case "variance":
		if g < 0 {
			t.Fail(name+"/negative-variance", "Get() = %v", g)
		}
		if s.pureAdds && s.min == s.max && g != 0 {
			t.Fail(name+"/variance-of-identical-samples", "Get() = %v after %d identical samples (%v)", g, s.n, s.min)
		}
	}
}

func (s *c18State) fp() string {
	return fmt.Sprintf("%s|%d|%v|%v|%v|%v|%v|%v", mc.Fingerprint(s.m), minInt(s.n, 6), s.min, s.max, s.sum, s.last, s.pureAdds, s.afterReset)
}

func minInt(a, b int) int {
	if a < b {
		return a
	}
	return b
}

func c18Model(k c18Kind) *mc.Model {
	return &mc.Model{
		Name:   "C18/" + k.name,
		Params: "ops Add{0,1,2,5,1e9} Get Reset Update{identity,x0.9}",
		New:    func(t *mc.Tr) any { return &c18State{k: k, m: k.mk(), pureAdds: true} },
		Ops: func(any) []string {
			var out []string
			for _, o := range c18Ops {
				out = append(out, o.name)
			}
			return out
		},
		Apply: func(x any, i int, t *mc.Tr) { x.(*c18State).apply(c18Ops[i], t) },
		FP:    func(x any) string { return x.(*c18State).fp() },
		Probe: func(fresh func() any, t *mc.Tr) {
			s := fresh().(*c18State)
			if !s.afterReset {
				return
			}
			// twin check: after Reset the instance behaves exactly like a new one
			var conts [][]int
			var gen func(cur []int, d int)
			gen = func(cur []int, d int) {
				if len(cur) > 0 {
					conts = append(conts, append([]int{}, cur...))
				}
				if d == 0 {
					return
				}
				for i, o := range c18Ops {
					if o.kind == "reset" {
						continue
					}
					gen(append(cur, i), d-1)
				}
			}
			gen(nil, 3)
			for _, c := range conts {
				a := fresh().(*c18State)
				b := &c18State{k: k, m: k.mk(), pureAdds: true}
				dummy := &mc.Tr{}
				for step, i := range c {
					ra, fa := a.apply(c18Ops[i], dummy)
					rb, fb := b.apply(c18Ops[i], dummy)
					ga, gb := a.m.Get(), b.m.Get()
					if ra != rb || fa != fb || ga != gb {
						names := ""
						for _, j := range c[:step+1] {
							names += c18Ops[j].name + " "
						}
						t.Fail(k.name+"/reset-not-fresh", "after Reset(), %s gives (%v,%v) Get=%v but a new instance gives (%v,%v) Get=%v", names, ra, fa, ga, rb, fb, gb)
						return
					}
				}
			}
			t.Nontrivial = true
		},
	}
}

// ---- ImmutableSampleWindow ----

type winOp struct {
	drop     bool
	rtt      int64
	inflight int
}

var winOps = []winOp{{false, 1, 0}, {false, 5, 3}, {false, 1e9, 1}, {false, 5, 0}, {true, 0, 0}, {true, 0, 7}}

type winState struct {
	w   *measurements.ImmutableSampleWindow
	ops []int
}

func winApply(w *measurements.ImmutableSampleWindow, o winOp) *measurements.ImmutableSampleWindow {
	if o.drop {
		return w.AddDroppedSample(0, o.inflight)
	}
	return w.AddSample(0, o.rtt, o.inflight)
}

func winSummary(w *measurements.ImmutableSampleWindow) string {
	return fmt.Sprintf("min=%d avg=%d max=%d n=%d drop=%v", w.CandidateRTTNanoseconds(), w.AverageRTTNanoseconds(), w.MaxInFlight(), w.SampleCount(), w.DidDrop())
}

func winModel() *mc.Model {
	return &mc.Model{
		Name:   "C18/ImmutableSampleWindow",
		Params: "AddSample{(1,0),(5,3),(1e9,1),(5,0)} AddDroppedSample{0,7}; every permutation of the samples added",
		New:    func(t *mc.Tr) any { return &winState{w: measurements.NewImmutableSampleWindow(0, 0, 0, 0, 0, false)} },
		Ops: func(any) []string {
			var out []string
			for _, o := range winOps {
				if o.drop {
					out = append(out, fmt.Sprintf("AddDroppedSample(inflight=%d)", o.inflight))
				} else {
					out = append(out, fmt.Sprintf("AddSample(rtt=%d,inflight=%d)", o.rtt, o.inflight))
				}
			}
			return out
		},
		Apply: func(x any, i int, t *mc.Tr) {
			s := x.(*winState)
			before := *s.w
			nw := winApply(s.w, winOps[i])
			if !reflect.DeepEqual(before, *s.w) {
				t.Fail("window/receiver-mutated", "adding a sample changed the receiver %v -> %v", before, *s.w)
			}
			s.w = nw
			s.ops = append(s.ops, i)
			t.Nontrivial = true
			// reference fold
			min, sum, n, maxIn, drop := int64(math.MaxInt64), int64(0), 0, 0, false
			for _, j := range s.ops {
				o := winOps[j]
				if o.inflight > maxIn {
					maxIn = o.inflight
				}
				if o.drop {
					drop = true
					continue
				}
				n++
				sum += o.rtt
				if o.rtt < min {
					min = o.rtt
				}
			}
			avg := int64(0)
			if n > 0 {
				avg = sum / int64(n)
			}
			want := fmt.Sprintf("min=%d avg=%d max=%d n=%d drop=%v", min, avg, maxIn, n, drop)
			if got := winSummary(s.w); got != want {
				t.Fail("window/summary", "after %v the window reports %s, the fold of the samples is %s", s.ops, got, want)
			}
			// order independence
			base := winSummary(s.w)
			perm := append([]int{}, s.ops...)
			var rec func(k int)
			bad := false
			rec = func(k int) {
				if bad {
					return
				}
				if k == len(perm) {
					w := measurements.NewImmutableSampleWindow(0, 0, 0, 0, 0, false)
					for _, j := range perm {
						w = winApply(w, winOps[j])
					}
					if g := winSummary(w); g != base {
						bad = true
						t.Fail("window/order-dependent", "samples %v summarise to %s, the order %v to %s", s.ops, base, perm, g)
					}
					return
				}
				for i := k; i < len(perm); i++ {
					perm[k], perm[i] = perm[i], perm[k]
					rec(k + 1)
					perm[k], perm[i] = perm[i], perm[k]
				}
			}
			rec(0)
		},
		FP: func(x any) string { s := x.(*winState); return fmt.Sprint(s.ops) },
	}
}

// c18Concurrent: a sample is added while another goroutine runs Update with the identity operation (and a
// third reads). The identity leaves the value alone, so whatever the interleaving the instance must
// end up summarising exactly the samples added — judged against a twin that received the same samples
// sequentially. Only the kinds whose Update applies the operation to the stored value are used (the
// moving averages re-add their value in Update, which the property does not pin down).
func c18Concurrent(k c18Kind, prefill []float64, x float64) *mc.Scenario {
	return &mc.Scenario{
		Name:   "C18/concurrent/" + k.name,
		Params: fmt.Sprintf("prefill=%v Add(%v) || Update(identity) || Get", prefill, x),
		Body: func(xx *mc.Exec) {
			a, twin := k.mk(), k.mk()
			for _, v := range prefill {
				a.Add(v)
				twin.Add(v)
			}
			twin.Add(x)
			var flag bool
			ths := []*vrt.Thread{
				vrt.GoL("add", func() { _, flag = a.Add(x) }),
				vrt.GoL("update", func() { a.Update(func(v float64) float64 { return v }) }),
				vrt.GoL("get", func() { a.Get() }),
			}
			vrt.Join(ths...)
			xx.MarkConflict()
			got, want := a.Get(), twin.Get()
			xx.Observe("get=%v flag=%v", got, flag)
			if got != want && !(math.IsNaN(got) && math.IsNaN(want)) {
				xx.Fail("concurrent/sample-lost", "%s after %v: Add(%v) racing an identity Update left Get()=%v, the same samples added sequentially give %v", k.name, prefill, x, got, want)
			}
		},
	}
}

// c18TwoAdds: two samples added at the same time (and a reader): the instance must end up as if they
// had been added one after the other, in one of the two orders (twins for both).
func c18TwoAdds(k c18Kind, prefill []float64, x, y float64) *mc.Scenario {
	return &mc.Scenario{
		Name:   "C18/concurrent-adds/" + k.name,
		Params: fmt.Sprintf("prefill=%v Add(%v) || Add(%v) || Get", prefill, x, y),
		Body: func(xx *mc.Exec) {
			a, xy, yx := k.mk(), k.mk(), k.mk()
			for _, v := range prefill {
				a.Add(v)
				xy.Add(v)
				yx.Add(v)
			}
			xy.Add(x)
			xy.Add(y)
			yx.Add(y)
			yx.Add(x)
			ths := []*vrt.Thread{
				vrt.GoL("add-x", func() { a.Add(x) }),
				vrt.GoL("add-y", func() { a.Add(y) }),
				vrt.GoL("get", func() { a.Get() }),
			}
			vrt.Join(ths...)
			xx.MarkConflict()
			got, w1, w2 := a.Get(), xy.Get(), yx.Get()
			xx.Observe("get=%v", got)
			same := func(p, q float64) bool { return p == q || (math.IsNaN(p) && math.IsNaN(q)) }
			if !same(got, w1) && !same(got, w2) {
				xx.Fail("concurrent/adds-not-serializable", "%s after %v: Add(%v) racing Add(%v) left Get()=%v; one after the other they give %v or %v", k.name, prefill, x, y, got, w1, w2)
			}
		},
	}
}

func runC18(c *Ctx) {
	for _, k := range c18Kinds() {
		for _, pre := range [][]float64{nil, {5, 2, 9, 2}} {
			c.Explore(c18TwoAdds(k, pre, 1, 7), mc.Options{PreemptBound: c.Pick(2, 3), NoCache: true})
		}
		if k.fold != "min" && k.fold != "last" && !strings.HasPrefix(k.name, "ExponentialAverage") {
			continue
		}
		for _, pre := range [][]float64{nil, {5}, {5, 2, 9, 2}} {
			for _, x := range []float64{1, 7} {
				c.Explore(c18Concurrent(k, pre, x), mc.Options{PreemptBound: c.Pick(2, 3), NoCache: true})
			}
		}
	}
	depth := c.Pick(6, 7)
	for _, k := range c18Kinds() {
		c.runBFS(c18Model(k), mc.BFSOptions{MaxDepth: depth, MaxStates: c.Pick(600000, 4000000)})
	}
	c.runBFS(winModel(), mc.BFSOptions{MaxDepth: c.Pick(4, 5), MaxStates: 600000})
}
