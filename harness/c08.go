package main

import (
	"fmt"
	"sort"
	"verif/mc"
)

// C08 — the update is monotone in the observed RTT. Mode S, relational: at every newly reached
// state of Vegas, Gradient and Gradient2 (histories without rtt 0) the state is rebuilt twice and the
// two instances receive the same final sample except for the RTT; the higher RTT must not yield the
// higher estimate.

func init() { props["C08"] = runC08 }

func c08Hooks(level int) limHooks {
	return limHooks{
		name: "C08", level: level, withZero: false, withHuge: false,
		step: func(li *limInst, s sample, before, after int, pm string, t *mc.Tr) {
			if pm != "" {
				t.Note("panic (reported by C04 only): " + fmt.Sprintf("OnSample(%s) panicked: %s", s, pm))
			}
		},
		probe: func(fresh func() *limInst, t *mc.Tr) {
			ref := fresh()
			b := ref.rttNoLoad()
			if b == 0 {
				return // baseline unset: the next sample sets it (not a comparison point)
			}
			if b < 0 {
				b = baseRTT // gradient2 has no baseline: any RTTs
			}
			est := ref.top.EstimatedLimit()
			rtts := []int64{b, b + 1, b + b/2, 2 * b, 4 * b, 1 << 40}
			if ref.cfg.algo == "gradient2" {
				rtts = append([]int64{b / 4, b / 2}, rtts...)
			}
			// strictly ascending, without duplicates (with a tiny baseline b+b/2 collapses onto b)
			sort.Slice(rtts, func(i, j int) bool { return rtts[i] < rtts[j] })
			uniq := rtts[:0]
			for i, r := range rtts {
				if i == 0 || r != rtts[i-1] {
					uniq = append(uniq, r)
				}
			}
			rtts = uniq
			for _, infl := range []int{0, (est + 1) / 2, est, 2*est + 1} {
				for _, drop := range []bool{false, true} {
					var ests []int
					for _, r := range rtts {
						li := fresh()
						if pm := li.apply(sample{rtt: r, inflight: infl, drop: drop}); pm != "" {
							t.Note("panic (reported by C04 only): " + fmt.Sprintf("panic: %s", pm))
							return
						}
						ests = append(ests, li.top.EstimatedLimit())
					}
					for i := 0; i < len(rtts); i++ {
						for j := i + 1; j < len(rtts); j++ {
							if ests[j] > ests[i] {
								t.Fail(ref.cfg.algo+"/rtt-monotonicity", "from estimate %d (baseline %d): sample in-flight=%d drop=%v with rtt=%d gives %d but the lower rtt=%d gives %d",
									est, b, infl, drop, rtts[j], ests[j], rtts[i], ests[i])
								return
							}
						}
					}
					t.Nontrivial = true
				}
			}
		},
	}
}

func runC08(c *Ctx) {
	level := c.Pick(0, 1)
	depth := c.Pick(6, 7)
	for _, cfg := range limGrid(1) {
		if cfg.algo == "aimd" || cfg.initial > cfg.max {
			continue // an initial value above the maximum is clamped by the first update whatever the RTT (C04's concern)
		}
		if cfg.initial > 100 && !c.Thorough() {
			continue
		}
		c.runBFS(limModel(cfg, c08Hooks(level)), mc.BFSOptions{MaxDepth: depth, DevBound: c.Pick(1, 2), MaxStates: c.Pick(300000, 3000000)})
	}
}
