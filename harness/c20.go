package main

import (
	"bytes"
	"fmt"
	"os"
	"reflect"
	"strings"
	"sync"
	"time"

	dogstatsd "github.com/DataDog/datadog-go/v5/statsd"
	gometricslib "github.com/rcrowley/go-metrics"

	"github.com/platinummonkey/go-concurrency-limits/core"
	"github.com/platinummonkey/go-concurrency-limits/limit"
	"github.com/platinummonkey/go-concurrency-limits/limiter"
	ddreg "github.com/platinummonkey/go-concurrency-limits/metric_registry/datadog"
	gmreg "github.com/platinummonkey/go-concurrency-limits/metric_registry/gometrics"
	"github.com/platinummonkey/go-concurrency-limits/strategy"

	"verif/mc"
	"verif/vrt"
	"verif/vrt/vctx"
	"verif/vrt/vtime"
)

// C20 — metrics tell the truth; registries poll only between Start and Stop.
//  (a) Mode S: instrumented strategies, limits and the queue limiter over a recording registry.
//  (b) Mode S: the bundled registries forward each sample to the backend metric of the right kind
//      under the prefixed name (go-metrics registry contents; dogstatsd datagrams on an in-memory writer).
//  (c) Mode T: poller life cycle under the virtual ticker.

func init() { props["C20"] = runC20 }

// ---- (a1) simple / precise strategies ----

type c20Strat struct {
	kind string
	s    core.Strategy
	reg  *RecRegistry
	toks []core.StrategyToken
	lim  int
}

func c20StratModel(kind string) *mc.Model {
	ops := []string{"TryAcquire", "Release", "SetLimit(1)", "SetLimit(2)", "SetLimit(0)"}
	return &mc.Model{
		Name:   "C20/strategy/" + kind,
		Params: "ops TryAcquire Release SetLimit{0,1,2}; initial limit 2",
		New: func(t *mc.Tr) any {
			reg := NewRecRegistry()
			return &c20Strat{kind: kind, s: newStrategy(kind, 2, reg), reg: reg, lim: 2}
		},
		Ops: func(any) []string { return ops },
		Apply: func(x any, k int, t *mc.Tr) {
			st := x.(*c20Strat)
			switch k {
			case 0:
				before := len(st.reg.Samples[core.MetricInFlight])
				tok, ok := st.s.TryAcquire(vctx.Background())
				if ok {
					st.toks = append(st.toks, tok)
				}
				sm := st.reg.Samples[core.MetricInFlight]
				if len(sm) != before+1 {
					t.Fail(kind+"/inflight-sample-count", "TryAcquire emitted %d in-flight samples", len(sm)-before)
				} else if int(sm[len(sm)-1]) != len(st.toks) {
					t.Fail(kind+"/inflight-sample-value", "TryAcquire (granted=%v) emitted in-flight=%v, %d tokens are outstanding at the decision", ok, sm[len(sm)-1], len(st.toks))
				}
				if tok != nil && tok.InFlightCount() != len(st.toks) {
					t.Fail(kind+"/token-inflight", "token reports in-flight %d, outstanding %d", tok.InFlightCount(), len(st.toks))
				}
				t.Nontrivial = true
			case 1:
				if len(st.toks) > 0 {
					st.toks[0].Release()
					st.toks = st.toks[1:]
				}
			default:
				v := []int{1, 2, 0}[k-2]
				st.s.SetLimit(v)
				st.lim = max1(v)
			}
			// the gauge must report what the strategy enforces (wherever the floor of 1 is applied)
			if enforced := (stratView{s: st.s}).Limit(); enforced >= 0 {
				if g, ok := st.reg.Gauge(core.MetricLimit); !ok || int(g) != enforced {
					t.Fail(kind+"/limit-gauge", "limit gauge=%v (registered=%v), enforced limit %d", g, ok, enforced)
				}
			}
		},
		FP: func(x any) string { st := x.(*c20Strat); return fmt.Sprint(len(st.toks), st.lim) },
	}
}

// ---- (a2) partitioned strategies ----

type c20Part struct {
	lookup bool
	s      core.Strategy
	reg    *RecRegistry
	toks   map[string][]core.StrategyToken
	lim    int
	added  bool // partition c (fraction 0.2) was added dynamically
}

func c20PartModel(lookup bool) *mc.Model {
	kind := map[bool]string{true: "lookup", false: "predicate"}[lookup]
	ops := []string{"TryAcquire(a)", "TryAcquire(b)", "Release(a)", "Release(b)", "SetLimit(1)", "SetLimit(4)", "SetLimit(3)", "AddPartition(c,0.2)", "TryAcquire(c)", "Release(c)"}
	fr := map[string]float64{"a": 0.3, "b": 0.7}
	if !lookup {
		fr = map[string]float64{"a": 0.5, "b": 0.5}
	}
	return &mc.Model{
		Name:   "C20/strategy/" + kind,
		Params: "ops TryAcquire{a,b,c} Release{a,b,c} SetLimit{1,3,4} AddPartition(c); initial limit 2",
		New: func(t *mc.Tr) any {
			reg := NewRecRegistry()
			return &c20Part{lookup: lookup, s: newStrategy(kind, 2, reg), reg: reg, toks: map[string][]core.StrategyToken{}, lim: 2}
		},
		Ops: func(any) []string { return ops },
		Apply: func(x any, k int, t *mc.Tr) {
			st := x.(*c20Part)
			switch {
			case k < 2:
				key := []string{"a", "b"}[k]
				mk := core.MetricInFlight + "{partition:" + key + "}"
				before := len(st.reg.Samples[mk])
				tok, ok := st.s.TryAcquire(ctxFor(key))
				if ok {
					st.toks[key] = append(st.toks[key], tok)
					sm := st.reg.Samples[mk]
					if len(sm) != before+1 || int(sm[len(sm)-1]) != len(st.toks[key]) {
						t.Fail(kind+"/bin-inflight-sample", "granted TryAcquire(%s) emitted bin in-flight samples %v, bin holds %d", key, sm[before:], len(st.toks[key]))
					}
					total := len(st.toks["a"]) + len(st.toks["b"]) + len(st.toks["c"])
					if tok.InFlightCount() != total {
						t.Fail(kind+"/token-inflight", "token reports in-flight %d, outstanding %d", tok.InFlightCount(), total)
					}
				}
				t.Nontrivial = true
			case k < 4:
				key := []string{"a", "b"}[k-2]
				if len(st.toks[key]) > 0 {
					st.toks[key][0].Release()
					st.toks[key] = st.toks[key][1:]
				}
			case k < 7:
				v := []int{1, 4, 3}[k-4]
				st.s.SetLimit(v)
				st.lim = v
			case k == 7:
				// a partition added at run time reports its in-flight samples and its share like the others
				if !st.added {
					st.added = true
					if lookup {
						st.s.(*strategy.LookupPartitionStrategy).AddPartition("c", strategy.NewLookupPartitionWithMetricRegistry("c", 0.2, 1, st.reg))
					} else {
						st.s.(*strategy.PredicatePartitionStrategy).AddPartition(strategy.NewPredicatePartitionWithMetricRegistry("c", 0.2, matchKey("c"), st.reg))
					}
				}
			case k == 8:
				if st.added {
					mk := core.MetricInFlight + "{partition:c}"
					before := len(st.reg.Samples[mk])
					if tok, ok := st.s.TryAcquire(ctxFor("c")); ok {
						st.toks["c"] = append(st.toks["c"], tok)
						sm := st.reg.Samples[mk]
						if len(sm) != before+1 || int(sm[len(sm)-1]) != len(st.toks["c"]) {
							t.Fail(kind+"/bin-inflight-sample", "granted TryAcquire(c) on the added partition emitted bin in-flight samples %v, bin holds %d", sm[before:], len(st.toks["c"]))
						}
					}
				}
			default:
				if len(st.toks["c"]) > 0 {
					st.toks["c"][0].Release()
					st.toks["c"] = st.toks["c"][1:]
				}
			}
			// the gauges must report what the strategy enforces (the getters); whether that is the right
			// share is C03's and C05's question
			enforcedBin := func(key string) (int, bool) {
				switch s := st.s.(type) {
				case *strategy.LookupPartitionStrategy:
					v, err := s.BinLimit(key)
					return v, err == nil
				case *strategy.PredicatePartitionStrategy:
					v, err := s.BinLimit(map[string]int{"a": 0, "b": 1, "c": 2}[key])
					return v, err == nil
				}
				return 0, false
			}
			if st.added {
				want, okw := enforcedBin("c")
				if g, ok := st.reg.Gauge(core.MetricPartitionLimit + "{partition:c}"); okw && (!ok || int(g) != want) {
					t.Fail(kind+"/partition-gauge", "limit.partition gauge of the added partition c = %v (registered=%v), enforced share %d", g, ok, want)
				}
			}
			if enforced := (stratView{s: st.s}).Limit(); enforced >= 0 {
				if g, ok := st.reg.Gauge(core.MetricLimit); !ok || int(g) != enforced {
					t.Fail(kind+"/limit-gauge", "limit gauge=%v (registered=%v), enforced limit %d", g, ok, enforced)
				}
			}
			for key := range fr {
				want, okw := enforcedBin(key)
				if g, ok := st.reg.Gauge(core.MetricPartitionLimit + "{partition:" + key + "}"); okw && (!ok || int(g) != want) {
					t.Fail(kind+"/partition-gauge", "limit.partition gauge of %s = %v (registered=%v), enforced share %d", key, g, ok, want)
				}
			}
		},
		FP: func(x any) string {
			st := x.(*c20Part)
			return fmt.Sprint(len(st.toks["a"]), len(st.toks["b"]), len(st.toks["c"]), st.lim, st.added)
		},
	}
}

// ---- (a3) limits: each processed sample emits its RTT and in-flight once, the drop counter iff drop ----

func c20LimHooks() limHooks {
	return limHooks{
		name: "C20/limit", level: 0, withZero: true, withHuge: false, reg: true, // incl. samples with RTT 0 (a drop-only window behind a wrapper)
		step: func(li *limInst, s sample, before, after int, pm string, t *mc.Tr) {
			if pm != "" {
				t.Note("panic (reported by C04 only): " + fmt.Sprintf("OnSample(%s) panicked: %s", s, pm))
				return
			}
			a := li.aux.(*[3]int)
			name := "t"
			if li.cfg.wrapper == "windowed" {
				name = "w" // the wrapper samples under its own name; the delegate only sees whole windows
			}
			r := li.reg.Samples[name+"."+core.MetricRTT]
			f := li.reg.Samples[name+"."+core.MetricInFlight]
			d := li.reg.Samples[name+"."+core.MetricDropped]
			cls := li.cfg.algo + wrapTag(li.cfg.wrapper)
			if len(r) != a[0]+1 || r[len(r)-1] != float64(s.rtt) {
				t.Fail(cls+"/rtt-sample", "OnSample(%s) emitted rtt samples %v", s, r[a[0]:])
			}
			if len(f) != a[1]+1 || f[len(f)-1] != float64(s.inflight) {
				t.Fail(cls+"/inflight-sample", "OnSample(%s) emitted in-flight samples %v", s, f[a[1]:])
			}
			wantD := a[2]
			if s.drop {
				wantD++
			}
			if len(d) != wantD {
				t.Fail(cls+"/drop-counter", "OnSample(%s) moved the drop counter by %d", s, len(d)-a[2])
			}
			a[0], a[1], a[2] = len(r), len(f), len(d)
			if g, ok := li.reg.Gauge("t." + core.MetricLimit); ok && int(g) != li.inner.EstimatedLimit() {
				t.Fail(cls+"/limit-gauge", "limit gauge=%v, estimate %d", g, li.inner.EstimatedLimit())
			}
		},
		newAux:  func(li *limInst) any { return &[3]int{} },
		fpExtra: func(li *limInst) string { return "" },
	}
}

// windowed wrapper registered with a recording registry of its own
func c20WindowedCfg() limCfg {
	return limCfg{algo: "aimd", wrapper: "windowed", initial: 4, backoff: 0.9, incr: 1}
}

// ---- (b) bundled registries ----

type memWriter struct {
	mu  sync.Mutex
	buf bytes.Buffer
}

func (m *memWriter) Write(p []byte) (int, error) {
	m.mu.Lock()
	defer m.mu.Unlock()
	m.buf.Write(p)
	m.buf.WriteByte('\n')
	return len(p), nil
}
func (m *memWriter) Close() error                        { return nil }
func (m *memWriter) SetWriteTimeout(time.Duration) error { return nil }
func (m *memWriter) String() string                      { m.mu.Lock(); defer m.mu.Unlock(); return m.buf.String() }
func (m *memWriter) Reset()                              { m.mu.Lock(); defer m.mu.Unlock(); m.buf.Reset() }

// nullWriter discards datagrams (registries whose backend contents are not looked at).
type nullWriter struct{}

func (nullWriter) Write(p []byte) (int, error)         { return len(p), nil }
func (nullWriter) Close() error                        { return nil }
func (nullWriter) SetWriteTimeout(time.Duration) error { return nil }

func c20Bundled(c *Ctx) {
	name := "C20/bundled-registries"
	params := "kind x prefix{'',p,p.} x id{x,.x} x values; go-metrics registry contents and dogstatsd datagrams"
	if c.replay != nil || (c.only != "" && !strings.Contains(name, c.only)) {
		if c.replay == nil || c.replay.Scenario != name {
			return
		}
	}
	if c.replay == nil && (!c.Mine() || c.expired()) {
		return
	}
	st := &mc.BFSStats{Model: name, Params: params, SigCounts: map[string]int{}, Exhaustive: true, Fixpoint: true, Depth: 1, MaxDepth: 1}
	states := map[string]bool{}
	fail := func(sig, format string, a ...any) {
		st.SigCounts[sig]++
		if st.SigCounts[sig] == 1 {
			st.Violations = append(st.Violations, &mc.Violation{Scenario: name, Params: params, Failures: []mc.Failure{{Sig: sig, Msg: fmt.Sprintf(format, a...)}}})
		}
	}
	kinds := []string{"distribution", "timing", "count"}
	for _, prefix := range []string{"", "p", "p."} {
		for _, id := range []string{"x", ".x"} {
			for ki, kind := range kinds {
				for _, vals := range [][]float64{{3}, {3, 4}, {0, 7, 7}} {
					wantPrefix := prefix
					if wantPrefix == "" {
						wantPrefix = "limiter."
					}
					if !strings.HasSuffix(wantPrefix, ".") {
						wantPrefix += "."
					}
					full := wantPrefix + "x"
					// go-metrics
					reg := gometricslib.NewRegistry()
					r, err := gmreg.NewGoMetricsMetricRegistry(reg, "", prefix, 0)
					if err != nil {
						panic(err)
					}
					var l core.MetricSampleListener
					switch ki {
					case 0:
						l = r.RegisterDistribution(id)
					case 1:
						l = r.RegisterTiming(id)
					case 2:
						l = r.RegisterCount(id)
					}
					for _, v := range vals {
						l.AddSample(v)
					}
					st.Transitions += int64(len(vals))
					st.Nontrivial += int64(len(vals))
					m := reg.Get(full)
					states[fmt.Sprintf("gm|%s|%T", full, m)] = true
					sum := 0.0
					for _, v := range vals {
						sum += v
					}
					switch mm := m.(type) {
					case gometricslib.Histogram:
						if ki != 0 || mm.Count() != int64(len(vals)) || mm.Sum() != int64(sum) {
							fail("gometrics/"+kind, "%s %q under prefix %q: registry holds histogram count=%d sum=%d for values %v", kind, id, prefix, mm.Count(), mm.Sum(), vals)
						}
					case gometricslib.Timer:
						if ki != 1 || mm.Count() != int64(len(vals)) || mm.Sum() != int64(sum)*int64(time.Millisecond) {
							fail("gometrics/"+kind, "%s %q under prefix %q: registry holds timer count=%d sum=%d for values %v ms", kind, id, prefix, mm.Count(), mm.Sum(), vals)
						}
					case gometricslib.Counter:
						if ki != 2 || mm.Count() != int64(sum) {
							fail("gometrics/"+kind, "%s %q under prefix %q: registry holds counter %d for values %v", kind, id, prefix, mm.Count(), vals)
						}
					default:
						fail("gometrics/"+kind+"/missing", "%s %q under prefix %q: no metric named %q of the right kind in the backend registry (found %T)", kind, id, prefix, full, m)
					}
					// datadog
					w := &memWriter{}
					client, err := dogstatsd.NewWithWriter(w, dogstatsd.WithoutTelemetry(), dogstatsd.WithoutClientSideAggregation(), dogstatsd.WithMaxMessagesPerPayload(1))
					if err != nil {
						panic(err)
					}
					dprefix := prefix
					dr, err := ddreg.NewMetricRegistryWithClient(client, dprefix, 0)
					if err != nil {
						panic(err)
					}
					var dl core.MetricSampleListener
					switch ki {
					case 0:
						dl = dr.RegisterDistribution(id)
					case 1:
						dl = dr.RegisterTiming(id)
					case 2:
						dl = dr.RegisterCount(id)
					}
					for _, v := range vals {
						dl.AddSample(v)
					}
					client.Flush()
					client.Close()
					out := w.String()
					dwant := prefix
					if !strings.HasSuffix(dwant, ".") {
						dwant += "."
					}
					dname := dwant + "x"
					suffix := []string{"|d", "|ms", "|c"}[ki]
					n := 0
					var sent []float64
					for _, line := range strings.Split(out, "\n") {
						if strings.HasPrefix(line, dname+":") && strings.HasSuffix(strings.Split(line, "|#")[0], suffix) {
							n++
							var v float64
							fmt.Sscanf(strings.TrimPrefix(line, dname+":"), "%g", &v)
							sent = append(sent, v)
						}
					}
					states[fmt.Sprintf("dd|%s|%s", dname, suffix)] = true
					if n != len(vals) {
						fail("datadog/"+kind, "%s %q under prefix %q: %d datagrams named %q with type %q for %d samples; wrote %q", kind, id, prefix, n, dname, suffix, len(vals), out)
					} else if fmt.Sprint(sent) != fmt.Sprint(vals) {
						fail("datadog/"+kind+"/value", "%s %q under prefix %q: datagrams carry the values %v, the samples were %v; wrote %q", kind, id, prefix, sent, vals, out)
					}
				}
			}
		}
	}
	// the constructor that dials an address normalises the prefix like its twin (the UDP socket is
	// never written to; skipped if it cannot be opened or the private field is gone)
	for _, prefix := range []string{"svc", "svc."} {
		if r, err := ddreg.NewMetricRegistry("127.0.0.1:8125", prefix, 0); err == nil && r != nil {
			st.Transitions++
			if f, ok := mc.Field(r, "prefix"); ok && f.Kind() == reflect.String {
				if got := f.String(); got != "svc." {
					fail("datadog/constructor-prefix", "NewMetricRegistry(addr, %q, …) keeps the prefix %q, NewMetricRegistryWithClient normalises it to %q", prefix, got, "svc.")
				}
			}
			if c, ok := mc.Field(r, "client"); ok && c.Kind() == reflect.Ptr && !c.IsNil() {
				if cl, ok := fieldIface(c).(*dogstatsd.Client); ok {
					cl.Close()
				}
			}
		}
	}
	st.States = len(states)
	st.Samples = append(st.Samples, []mc.Step{{Lbl: "RegisterDistribution(\".x\") under prefix \"p\"; AddSample(3); AddSample(4)"}})
	if c.replay != nil {
		for _, v := range st.Violations {
			fmt.Printf("  FAIL [%s] %s\n", v.Failures[0].Sig, v.Failures[0].Msg)
		}
		return
	}
	if c.verbose {
		fmt.Fprintf(os.Stderr, "%-28s cases=%d states=%d viol=%v\n", name, st.Transitions, st.States, st.SigCounts)
	}
	c.AddBFS(st)
}

// ---- (c) poller life cycle ----

type pollReg interface {
	Start()
	Stop()
	RegisterGauge(ID string, supplier core.MetricSupplier, tags ...string)
}

const pollEvery = 5 * time.Second

func newPollReg(kind string) (pollReg, func()) {
	switch kind {
	case "gometrics":
		back := gometricslib.NewRegistry()
		r, err := gmreg.NewGoMetricsMetricRegistry(back, "", "p", pollEvery)
		if err != nil {
			panic(err)
		}
		pollBackend = func(id string) (float64, int, bool) {
			g, ok := back.Get("p." + id).(gometricslib.GaugeFloat64)
			if !ok {
				return 0, 0, false
			}
			return g.Value(), 1, true
		}
		return r, func() {}
	default:
		// one statsd client per process (creating and closing one costs milliseconds): it only receives
		// the polled gauge values and keeps no state the life-cycle scenarios observe
		if sharedDD == nil {
			client, err := dogstatsd.NewWithWriter(sharedW, dogstatsd.WithoutTelemetry(), dogstatsd.WithoutClientSideAggregation(), dogstatsd.WithMaxMessagesPerPayload(1))
			if err != nil {
				panic(err)
			}
			sharedDD = client
		}
		r, err := ddreg.NewMetricRegistryWithClient(sharedDD, "p", pollEvery)
		if err != nil {
			panic(err)
		}
		pollBackendMark()
		pollBackend = func(id string) (float64, int, bool) {
			// datagrams written since the previous look: "p.<id>:<value>|g"
			sharedDD.Flush()
			out := sharedW.String()[sharedOff:]
			n, val, found := 0, 0.0, false
			for _, line := range strings.Split(out, "\n") {
				if strings.HasPrefix(line, "p."+id+":") && strings.Contains(line, "|g") {
					fmt.Sscanf(strings.TrimPrefix(line, "p."+id+":"), "%g", &val)
					n++
					found = true
				}
			}
			return val, n, found
		}
		return r, func() {}
	}
}

var sharedDD *dogstatsd.Client
var sharedW = &memWriter{}
var sharedOff int

// pollBackend looks a polled gauge up in the backend of the registry built last: its value, how
// many times it was written since the previous mark (datadog) and whether it exists at all.
var pollBackend func(id string) (val float64, writes int, ok bool)

func pollBackendMark() {
	if sharedDD != nil {
		sharedDD.Flush()
		sharedW.Reset() // (the writer is shared by all executions of the process: keep it small)
		sharedOff = 0
	}
}

// settledPollers lets a poller that is on its way out finish (Stop may signal and return) and then
// counts the poller threads that remain.
func settledPollers() int {
	vrt.WaitQuiescent()
	return livePollers(vrt.Self())
}

func livePollers(main *vrt.Thread) int {
	n := 0
	for _, t := range vrt.S.Threads() {
		if t != main && !t.Done() && t.Label == "" {
			n++
		}
	}
	return n
}

func c20Lifecycle(kind string, depth int) *mc.Scenario {
	return &mc.Scenario{
		Name:   "C20/poller-lifecycle/" + kind,
		Params: fmt.Sprintf("all sequences of <=%d calls over {Start, Stop, RegisterGauge, tick}", depth),
		Cfg:    vrt.Config{MaxSteps: 20000, Horizon: int64(40 * pollEvery)},
		Body: func(x *mc.Exec) {
			r, closeFn := newPollReg(kind)
			defer closeFn()
			var polls []int
			started := false
			history := []string{}
			for step := 0; step < depth && !x.Failed(); step++ {
				op := vrt.Choose(4)
				switch op {
				case 0:
					history = append(history, "Start")
					r.Start()
					started = true
				case 1:
					history = append(history, "Stop")
					r.Stop()
					started = false
					if n := settledPollers(); n != 0 {
						x.Fail(kind+"/poller-survives-stop", "after Stop returned %d poller thread(s) are still alive; history %v", n, history)
					}
				case 2:
					history = append(history, "RegisterGauge")
					i := len(polls)
					polls = append(polls, 0)
					r.RegisterGauge(fmt.Sprintf("g%d", i), func() (float64, bool) { polls[i]++; return float64(i), true })
				case 3:
					history = append(history, "tick")
					before := append([]int{}, polls...)
					pollBackendMark()
					vtime.Sleep(pollEvery + 1)
					vrt.WaitQuiescent()
					if started {
						// the polled value must have reached the backend as a gauge under the prefixed name
						for i := range polls {
							id := fmt.Sprintf("g%d", i)
							if v, n, ok := pollBackend(id); !ok || v != float64(i) || n < 1 {
								x.Fail(kind+"/gauge-not-forwarded", "after a poll the backend holds gauge p.%s = %v (present=%v, written %d times), the supplier returned %d; history %v", id, v, ok, n, i, history)
							}
						}
					}
					// stopped: no poll at all. Started: at least one poll per period; more than one only counts
					// against idempotence, i.e. when repeated Starts have left more than one poller behind
					np := livePollers(vrt.Self())
					for i := range polls {
						d := polls[i] - before[i]
						switch {
						case !started && d != 0:
							x.Fail(kind+"/polls-while-stopped", "one poll period elapsed while stopped: gauge %d was polled %d times; history %v", i, d, history)
						case started && d == 0:
							x.Fail(kind+"/no-poll-while-started", "one poll period elapsed while started: gauge %d was not polled; history %v", i, history)
						case started && d > 1 && np > 1:
							x.Fail(kind+"/double-poll", "one poll period elapsed while started: gauge %d was polled %d times by %d pollers (Start is not idempotent); history %v", i, d, np, history)
						}
					}
				}
			}
			x.Observe("history=%v polls=%v", history, polls)
			x.MarkConflict()
		},
		Post: func(x *mc.Exec, r *vrt.Result) {
			if r.Stuck && !x.Failed() {
				x.Fail(kind+"/lifecycle-deadlock", "a Start/Stop sequence never returned: %v", r.StuckInfo)
			}
		},
	}
}

// Stop racing a tick.
func c20StopRace(kind string) *mc.Scenario {
	return &mc.Scenario{
		Name:   "C20/stop-races-tick/" + kind,
		Params: "Start; RegisterGauge; a second thread calls Stop while the first tick may fire at any point (eager clock)",
		Cfg:    vrt.Config{MaxSteps: 20000, Horizon: int64(40 * pollEvery), EagerClock: true},
		Body: func(x *mc.Exec) {
			r, closeFn := newPollReg(kind)
			defer closeFn()
			polls := 0
			stopped := false
			after := 0
			r.RegisterGauge("g", func() (float64, bool) {
				polls++
				if stopped {
					after++
				}
				return 1, true
			})
			r.Start()
			vtime.Sleep(pollEvery - 1)
			st := vrt.GoL("stopper", func() {
				r.Stop()
				stopped = true
			})
			vrt.Join(st)
			if n := settledPollers(); n != 0 {
				x.Fail(kind+"/poller-survives-stop", "after Stop returned %d poller thread(s) are still alive", n)
			}
			vtime.Sleep(3 * pollEvery)
			vrt.WaitQuiescent()
			if after != 0 {
				x.Fail(kind+"/polls-while-stopped", "the gauge was polled %d times after Stop returned", after)
			}
			x.Observe("polls=%d", polls)
			x.MarkConflict()
		},
		Post: func(x *mc.Exec, r *vrt.Result) {
			if r.Stuck && !x.Failed() {
				x.Fail(kind+"/stop-deadlock", "Stop never returned when racing a tick: %v", r.StuckInfo)
			}
		},
	}
}

// Start and Stop called concurrently: every call returns, at most one poller exists afterwards, and
// the registry still starts and stops cleanly (one poll per period, none after Stop).
func c20LifecycleConcurrent(kind string) *mc.Scenario {
	progsA := [][]string{{"Start"}, {"Stop"}, {"Stop", "Start"}, {"Start", "Stop"}}
	progsB := [][]string{{"Start"}, {"Stop"}}
	return &mc.Scenario{
		Name:   "C20/poller-lifecycle-concurrent/" + kind,
		Params: "initially started or not; thread A runs one of {Start, Stop, Stop;Start, Start;Stop}, thread B one of {Start, Stop}, concurrently; then Stop, Start, one period, Stop",
		Cfg:    vrt.Config{MaxSteps: 20000, Horizon: int64(6 * pollEvery)},
		Body: func(x *mc.Exec) {
			r, closeFn := newPollReg(kind)
			defer closeFn()
			polls := 0
			r.RegisterGauge("g", func() (float64, bool) { polls++; return 1, true })
			initially := vrt.Choose(2) == 1
			if initially {
				r.Start()
			}
			pa, pb := progsA[vrt.Choose(len(progsA))], progsB[vrt.Choose(len(progsB))]
			x.Aux = fmt.Sprintf("started=%v A=%v B=%v", initially, pa, pb)
			run := func(p []string) func() {
				return func() {
					for _, op := range p {
						if op == "Start" {
							r.Start()
						} else {
							r.Stop()
						}
					}
				}
			}
			ta, tb := vrt.GoL("A", run(pa)), vrt.GoL("B", run(pb))
			vrt.Join(ta, tb)
			if n := settledPollers(); n > 1 {
				x.Fail(kind+"/two-pollers", "%v: %d poller threads are alive after concurrent Start/Stop calls returned", x.Aux, n)
			}
			r.Stop()
			if n := settledPollers(); n != 0 {
				x.Fail(kind+"/poller-survives-stop", "%v: after a final Stop %d poller thread(s) are still alive", x.Aux, n)
			}
			r.Start()
			before := polls
			vtime.Sleep(pollEvery + 1)
			vrt.WaitQuiescent()
			if d, np := polls-before, livePollers(vrt.Self()); d < 1 || (d > 1 && np > 1) {
				x.Fail(kind+"/double-poll", "%v: after Stop and Start one period polled the gauge %d times (%d pollers)", x.Aux, d, np)
			}
			r.Stop()
			before = polls
			vtime.Sleep(2 * pollEvery)
			vrt.WaitQuiescent()
			if polls != before {
				x.Fail(kind+"/polls-while-stopped", "%v: the gauge was polled %d times after the final Stop", x.Aux, polls-before)
			}
			x.Observe("%v pollers-ok", x.Aux)
			x.MarkConflict()
		},
		Post: func(x *mc.Exec, r *vrt.Result) {
			if r.Stuck && !x.Failed() {
				x.Fail(kind+"/lifecycle-deadlock", "%v: a concurrent Start/Stop call never returned: %v", x.Aux, r.StuckInfo)
			}
		},
	}
}

// countingStrategy wraps a real strategy and remembers, per calling thread, the strategy's own
// in-flight count of the last token it granted.
type countingStrategy struct {
	core.Strategy
	last map[int]int
}

func (s *countingStrategy) TryAcquire(ctx vctx.Context) (core.StrategyToken, bool) {
	tok, ok := s.Strategy.TryAcquire(ctx)
	if ok && tok != nil {
		s.last[vrt.Self().ID] = tok.InFlightCount()
	}
	return tok, ok
}

// c20InflightAtAdmission: the in-flight value a granted request carries (and which the algorithm and
// the in-flight metric later receive as the window's maximum) never exceeds the strategy's own
// in-flight count at that admission — an operation that has given its token back is no longer in
// flight — and so never exceeds the limit. A holder completes while another caller acquires.
func c20InflightAtAdmission(kind string, outcome int) *mc.Scenario {
	return &mc.Scenario{
		Name:   "C20/inflight-at-admission/" + kind,
		Params: fmt.Sprintf("limit 1, window pre-filled; holder completes with %s while a caller acquires twice; then the window is closed", outcomeNames[outcome]),
		Cfg:    vrt.Config{MaxSteps: 6000, TickPerNow: 1_000_000},
		Body: func(x *mc.Exec) {
			cs := &countingStrategy{Strategy: newStrategy(kind, 1, nil), last: map[int]int{}}
			rec := &ScriptLimit{Traj: []int{1}}
			l, err := limiter.NewDefaultLimiter(rec, 1000, 1000, 1, 10, cs, limit.NoopLimitLogger{}, core.EmptyMetricRegistryInstance)
			if err != nil {
				panic(err)
			}
			ctx := ctxFor("a")
			for i := 0; i < 9; i++ {
				tok, ok := l.Acquire(ctx)
				if !ok {
					x.Fail("setup", "prefill refused")
					return
				}
				tok.OnSuccess()
			}
			held, ok := l.Acquire(ctx)
			if !ok {
				x.Fail("setup", "holder refused")
				return
			}
			check := func(li core.Listener) {
				if v, ok := mc.FieldInt(li, "currentMaxInFlight"); ok {
					if own := cs.last[vrt.Self().ID]; int(v) > own {
						x.Fail(kind+"/inflight-above-strategy-count", "a granted request carries in-flight=%d, the strategy counted %d in flight at that admission", v, own)
					}
				} else {
					x.OracleSkipped++
				}
			}
			th := vrt.GoL("H", func() { complete(held, outcome) })
			tc := vrt.GoL("C", func() {
				for k := 0; k < 2; k++ {
					if li, ok := l.Acquire(ctx); ok {
						check(li)
						li.OnSuccess()
					}
				}
			})
			vrt.Join(th, tc)
			for i := 0; i < 12; i++ {
				if tok, ok := l.Acquire(ctx); ok {
					tok.OnSuccess()
				}
			}
			x.Observe("updates=%v", rec.Samples)
			x.MarkConflict()
			if len(rec.Samples) == 0 {
				x.Fail("setup", "the window never closed")
			}
			for _, smp := range rec.Samples {
				if smp.InFlight > 1 {
					x.Fail(kind+"/inflight-above-limit", "the algorithm was told in-flight=%d although the limit was 1 throughout (updates %v)", smp.InFlight, rec.Samples)
				}
			}
		},
	}
}

func runC20(c *Ctx) {
	for _, k := range []string{"simple", "precise"} {
		c.runBFS(c20StratModel(k), mc.BFSOptions{MaxDepth: 12, MaxStates: 100000})
	}
	for _, lk := range []bool{true, false} {
		c.runBFS(c20PartModel(lk), mc.BFSOptions{MaxDepth: 16, MaxStates: 100000})
	}
	for _, cfg := range append(limGrid(0), c20WindowedCfg()) {
		cfg := cfg
		c.runBFS(limModel(cfg, c20LimHooks()), mc.BFSOptions{MaxDepth: c.Pick(4, 5), DevBound: 1, MaxStates: 300000})
	}
	for _, ct := range qCtors()[:3] {
		c.Explore(qdScenario(qdCase{prop: "C20", ctor: ct, limit: 1, maxBacklog: 2, timeout: 50 * time.Millisecond, evict: true, maxArrive: 4, depth: c.Pick(5, 6)}), mc.Options{PreemptBound: 0})
	}
	for _, kind := range []string{"simple", "precise", "lookup"} {
		for o := 0; o < 3; o++ {
			c.Explore(c20InflightAtAdmission(kind, o), mc.Options{PreemptBound: c.Pick(2, 3)})
		}
	}
	c20Bundled(c)
	c20Names(c)
	for _, kind := range []string{"gometrics", "datadog"} {
		c.Explore(c20Lifecycle(kind, c.Pick(6, 7)), mc.Options{PreemptBound: 0})
		c.Explore(c20LifecycleConcurrent(kind), mc.Options{PreemptBound: c.Pick(3, 4)})
		c.Explore(c20StopRace(kind), mc.Options{PreemptBound: pbStop(c)})
	}
	_ = limit.NoopLimitLogger{}
	_ = strategy.PartitionTagName
}

func pbStop(c *Ctx) int {
	if v := os.Getenv("PBSTOP"); v != "" {
		n := 0
		fmt.Sscan(v, &n)
		return n
	}
	return c.Pick(2, 3)
}

// c20Names: limits publish their metrics under "<name>.<metric>" ("default" for an empty name, no
// doubled dot for a name that already ends in one), with the tags given at construction.
func c20Names(c *Ctx) {
	name := "C20/metric-names"
	params := "limit name in {'', n, n.} x tags x {aimd, vegas, gradient, gradient2, settable, fixed}"
	if c.replay != nil || (c.only != "" && !strings.Contains(name, c.only)) {
		if c.replay == nil || c.replay.Scenario != name {
			return
		}
	}
	if c.replay == nil && (!c.Mine() || c.expired()) {
		return
	}
	st := &mc.BFSStats{Model: name, Params: params, SigCounts: map[string]int{}, Exhaustive: true, Fixpoint: true, Depth: 1, MaxDepth: 1}
	states := map[string]bool{}
	fail := func(sig, format string, a ...any) {
		st.SigCounts[sig]++
		if st.SigCounts[sig] == 1 {
			st.Violations = append(st.Violations, &mc.Violation{Scenario: name, Params: params, Failures: []mc.Failure{{Sig: sig, Msg: fmt.Sprintf(format, a...)}}})
		}
	}
	for _, nm := range []string{"", "n", "n."} {
		for _, tags := range [][]string{nil, {"k:v"}} {
			mks := map[string]func(reg core.MetricRegistry) core.Limit{
				"aimd": func(reg core.MetricRegistry) core.Limit { return limit.NewAIMDLimit(nm, 4, 0.9, 1, reg, tags...) },
				"vegas": func(reg core.MetricRegistry) core.Limit {
					return limit.NewDefaultVegasLimitWithLimit(nm, 4, nil, reg, tags...)
				},
				"settable": func(reg core.MetricRegistry) core.Limit { return limit.NewSettableLimit(nm, 4, reg, tags...) },
				"fixed":    func(reg core.MetricRegistry) core.Limit { return limit.NewFixedLimit(nm, 4, reg, tags...) },
				"traced(aimd)": func(reg core.MetricRegistry) core.Limit {
					return limit.NewTracedLimit(limit.NewAIMDLimit(nm, 4, 0.9, 1, reg, tags...), limit.NoopLimitLogger{})
				},
				"gradient": func(reg core.MetricRegistry) core.Limit {
					return limit.NewGradientLimitWithRegistry(nm, 4, 1, 10, 1.0, nil, 2.0, -1, nil, reg, tags...)
				},
				"gradient2": func(reg core.MetricRegistry) core.Limit {
					g, _ := limit.NewGradient2Limit(nm, 4, 10, 1, nil, 1.0, 3, nil, reg, tags...)
					return g
				},
			}
			for algo, mk := range mks {
				reg := NewRecRegistry()
				l := mk(reg)
				l.OnSample(0, 2e6, 2, false)
				l.OnSample(0, 1e6, 3, true)
				base := nm
				if base == "" {
					base = "default"
				}
				if !strings.HasSuffix(base, ".") {
					base += "."
				}
				st.Transitions++
				st.Nontrivial++
				// a success then a drop: RTT and in-flight once per sample, the drop counter only for the drop
				// (how a limit composes its metric names and tags is not fixed by C20: the metric is found
				// by its last name component, whatever prefix and tags it carries)
				_ = base
				for metric, want := range map[string][]float64{core.MetricRTT: {2e6, 1e6}, core.MetricInFlight: {2, 3}, core.MetricDropped: {1}} {
					var got []float64
					for _, k := range sampleKeys(reg) {
						if metricIs(k, metric) {
							got = append(got, reg.Samples[k]...)
							states[algo+k] = true
						}
					}
					if fmt.Sprint(got) != fmt.Sprint(want) {
						fail(algo+"/metric-samples", "%s limit named %q with tags %v: samples emitted for metric %q are %v (want %v); keys present: %v", algo, nm, tags, metric, got, want, sampleKeys(reg))
					}
				}
				found := false
				for _, k := range reg.GaugeKeys() {
					if metricIs(k, core.MetricLimit) {
						found = true
						if v, _ := reg.Gauges[k](); int(v) != l.EstimatedLimit() {
							fail(algo+"/limit-gauge", "gauge %q reports %v, estimate %d", k, v, l.EstimatedLimit())
						}
					}
				}
				if !found {
					fail(algo+"/limit-gauge-missing", "%s limit named %q with tags %v registered no limit gauge; gauges: %v", algo, nm, tags, reg.GaugeKeys())
				}
			}
		}
	}
	st.States = len(states)
	st.Samples = append(st.Samples, []mc.Step{{Lbl: `NewAIMDLimit("", ..., tags k:v).OnSample(rtt=1e6, inflight=3, drop) -> default.rtt{k:v}, default.inflight{k:v}, default.dropped{k:v}`}})
	if c.replay != nil {
		for _, v := range st.Violations {
			fmt.Printf("  FAIL [%s] %s\n", v.Failures[0].Sig, v.Failures[0].Msg)
		}
		return
	}
	c.AddBFS(st)
}

// metricIs reports whether a recording-registry key ("prefix.metric{tags}") names the given metric.
func metricIs(key, metric string) bool {
	if i := strings.Index(key, "{"); i >= 0 {
		key = key[:i]
	}
	return key == metric || strings.HasSuffix(key, "."+metric)
}

func sampleKeys(r *RecRegistry) []string {
	var ks []string
	for k := range r.Samples {
		ks = append(ks, k)
	}
	return ks
}
