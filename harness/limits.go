package main

import (
	"fmt"
	"math"

	"github.com/platinummonkey/go-concurrency-limits/core"
	"github.com/platinummonkey/go-concurrency-limits/limit"
	"github.com/platinummonkey/go-concurrency-limits/limit/functions"
	"github.com/platinummonkey/go-concurrency-limits/measurements"

	"verif/mc"
)

// Shared machinery for the limit-algorithm properties (C04, C06, C07, C08, C15, C16): configuration
// grid, construction of every algorithm/wrapper, the abstract sample alphabet and a Mode-S model
// whose per-transition and per-state oracles are supplied by each property.

type limCfg struct {
	algo      string // aimd | vegas | gradient | gradient2
	wrapper   string // "" | windowed | traced
	initial   int
	min, max  int
	smoothing float64
	backoff   float64 // aimd
	incr      int     // aimd
	probe     int     // vegas probe multiplier / gradient probe interval (-1 disabled)
	queue     string  // gradient*: fixed2 | fixed4 | sqrt4
	tol       float64 // gradient rtt tolerance
	longWin   int     // gradient2
	ctor      string  // "" = the full constructor; "default" = the algorithm's NewDefault… constructor (fields mirror its values)
	debug     bool    // logger with debug enabled: the Debugf branches and their arguments are evaluated
	custom    bool    // vegas: caller-supplied alpha/beta/threshold/increase/decrease functions and baseline measurement
}

// debugLogger evaluates every debug statement (formatting included) and discards it.
type debugLogger struct{}

func (debugLogger) Debugf(msg string, params ...interface{}) { _ = fmt.Sprintf(msg, params...) }
func (debugLogger) IsDebugEnabled() bool                     { return true }
func (debugLogger) String() string                           { return "debugLogger{}" }

func (c limCfg) String() string {
	v := ""
	if c.ctor != "" {
		v += " ctor=" + c.ctor
	}
	if c.debug {
		v += " debug-logger"
	}
	if c.custom {
		v += " custom-functions"
	}
	return fmt.Sprintf("%s%s init=%d min=%d max=%d smooth=%v backoff=%v incr=%d probe=%d queue=%s tol=%v longWin=%d%s",
		c.algo, map[string]string{"": "", "windowed": "+windowed", "traced": "+traced"}[c.wrapper], c.initial, c.min, c.max, c.smoothing, c.backoff, c.incr, c.probe, c.queue, c.tol, c.longWin, v)
}

func (c limCfg) queueFunc() func(int) int {
	switch c.queue {
	case "fixed2":
		return functions.FixedQueueSizeFunc(2)
	case "fixed4":
		return functions.FixedQueueSizeFunc(4)
	case "sqrt4":
		return functions.SqrtRootFunction(4)
	}
	return functions.FixedQueueSizeFunc(2)
}

func (c limCfg) queueAt(est int) int { return c.queueFunc()(est) }

// limInst is one instance under exploration.
type limInst struct {
	cfg   limCfg
	top   core.Limit
	inner core.Limit
	reg   *RecRegistry
	// counting is the delegate handed to the windowed wrapper (nil otherwise)
	counting *countingLimit
	n        int   // samples applied
	clock    int64 // windowed wrapper: start time of the next sample
	// ghost state used by individual properties
	aux any
}

func (c limCfg) build(reg *RecRegistry) *limInst {
	var r core.MetricRegistry
	if reg != nil {
		r = reg
	}
	var in core.Limit
	var lg limit.Logger
	if c.debug {
		lg = debugLogger{}
	}
	switch {
	case c.ctor == "default" && c.algo == "aimd":
		in = limit.NewDefaultAIMDLimit("t", r)
	case c.ctor == "default" && c.algo == "vegas":
		in = limit.NewDefaultVegasLimit("t", lg, r)
	case c.ctor == "default" && c.algo == "gradient2":
		in = limit.NewDefaultGradient2Limit("t", lg, r)
	case c.algo == "aimd":
		in = limit.NewAIMDLimit("t", c.initial, c.backoff, c.incr, r)
	case c.algo == "vegas" && c.custom:
		in = limit.NewVegasLimitWithRegistry("t", c.initial, &measurements.MinimumMeasurement{}, c.max, c.smoothing,
			func(l int) int { return 3 }, func(l int) int { return 6 }, func(l int) int { return 1 },
			func(l float64) float64 { return l + 2 }, func(l float64) float64 { return l / 2 }, c.probe, lg, r)
	case c.algo == "vegas":
		in = limit.NewVegasLimitWithRegistry("t", c.initial, nil, c.max, c.smoothing, nil, nil, nil, nil, nil, c.probe, lg, r)
	case c.algo == "gradient":
		in = limit.NewGradientLimitWithRegistry("t", c.initial, c.min, c.max, c.smoothing, c.queueFunc(), c.tol, c.probe, lg, r)
	case c.algo == "gradient2":
		g, err := limit.NewGradient2Limit("t", c.initial, c.max, c.min, c.queueFunc(), c.smoothing, c.longWin, lg, r)
		if err != nil {
			panic(err)
		}
		in = g
	default:
		panic("algo " + c.algo)
	}
	top := in
	var counting *countingLimit
	switch c.wrapper {
	case "windowed":
		cl := &countingLimit{Limit: in}
		w, err := limit.NewWindowedLimit("w", 1e8, 1e8, 10, 1, cl, r)
		if err != nil {
			panic(err)
		}
		top = w
		counting = cl
	case "traced":
		if c.debug {
			top = limit.NewTracedLimit(in, debugLogger{})
		} else {
			top = limit.NewTracedLimit(in, limit.NoopLimitLogger{})
		}
	}
	if c.ctor == "default" {
		// the NewDefault… constructors choose the bounds: read what they configured rather than
		// trusting the constants mirrored in the grid (kept as the fallback)
		c.initial = in.EstimatedLimit()
		if v, ok := mc.FieldInt(in, "maxLimit"); ok && v > 0 {
			c.max = int(v)
		}
		if v, ok := mc.FieldInt(in, "minLimit"); ok && v > 0 {
			c.min = int(v)
		}
	}
	return &limInst{cfg: c, top: top, inner: in, reg: reg, counting: counting}
}

// countingLimit forwards to a real algorithm and counts the samples it is given (a harness double:
// lets a check see when the windowed wrapper closes a window). It is part of the fingerprinted state
// (the algorithm hangs below it); only the counter is left out.
type countingLimit struct {
	core.Limit
	Calls int `fp:"-"`
}

func (c *countingLimit) OnSample(start, rtt int64, inFlight int, drop bool) {
	c.Calls++
	c.Limit.OnSample(start, rtt, inFlight, drop)
}

// floor/ceiling of the reported estimate per the property statement.
func (c limCfg) floor() int {
	switch c.algo {
	case "gradient", "gradient2":
		if c.min > 1 {
			return c.min
		}
	}
	return 1
}

func (c limCfg) ceiling(samples int) int {
	switch c.algo {
	case "aimd":
		inc := c.incr
		if inc <= 0 {
			inc = 1 // the constructor replaces a non-positive increment
		}
		return c.initial + inc*samples
	}
	if c.initial > c.max {
		return c.initial
	}
	return c.max
}

// sample is one OnSample call.
type sample struct {
	rtt      int64
	inflight int
	drop     bool
	gap      int64 // windowed: time added before the sample starts
}

func (s sample) String() string {
	d := ""
	if s.drop {
		d = " DROP"
	}
	g := ""
	if s.gap != 0 {
		g = fmt.Sprintf(" +%dms", s.gap/1e6)
	}
	return fmt.Sprintf("rtt=%d inflight=%d%s%s", s.rtt, s.inflight, d, g)
}

const baseRTT = int64(1_000_000)

func (li *limInst) apply(s sample) (panicMsg string) {
	li.n++
	li.clock += s.gap
	start := li.clock
	return mc.Safe(func() { li.top.OnSample(start, s.rtt, s.inflight, s.drop) })
}

// rttNoLoad returns the baseline of vegas/gradient (0 = unset), -1 if the algorithm has none.
func (li *limInst) rttNoLoad() int64 {
	switch l := li.inner.(type) {
	case *limit.VegasLimit:
		return l.RTTNoLoad()
	case *limit.GradientLimit:
		return l.RTTNoLoad()
	}
	return -1
}

// estFloat reads the private float estimate if it still exists.
func (li *limInst) estFloat() (float64, bool) {
	return mc.FieldFloat(li.inner, "estimatedLimit")
}

// alphabet builds the sample alphabet against the current estimate. Level 0 is the small quick
// alphabet, 1 adds the remaining abstract values of DESIGN C04.
func (li *limInst) alphabet(level int, withZero, withHuge bool) []sample {
	est := li.top.EstimatedLimit()
	if est < 0 || est > 1<<20 {
		est = 4 // poisoned estimate: keep the alphabet finite
	}
	half := (est + 1) / 2
	rtts := []int64{baseRTT / 2, baseRTT, 3 * baseRTT}
	if withZero {
		rtts = append([]int64{0}, rtts...)
	}
	if withHuge {
		rtts = append(rtts, 1<<62)
	}
	if level > 0 {
		rtts = append(rtts, 1)
	}
	infl := []int{0, half - 1, half, est} // half-1 = floor(est/2) for odd estimates: the app-limited boundary
	if level < 0 {
		// minimal alphabet (C15): what matters is the RTT; saturated or idle, with or without a drop
		infl = []int{0, 2*est + 1}
	}
	if level > 0 {
		infl = append(infl, math.MaxInt32)
	} else if withHuge {
		infl = append(infl, math.MaxInt32)
	}
	var out []sample
	seen := map[sample]bool{}
	add := func(s sample) {
		if s.inflight < 0 {
			return
		}
		if !seen[s] {
			seen[s] = true
			out = append(out, s)
		}
	}
	if li.cfg.wrapper == "windowed" {
		// the wrapper closes a window only when the closing sample has in-flight > 10 and the period
		// (200 ms here) has elapsed; samples below its 1 ns threshold are discarded. A window holding
		// only drops reaches the delegate with an average RTT of 0.
		for _, r := range []int64{baseRTT, 3 * baseRTT} {
			for _, f := range []int{11, est + 11} {
				for _, d := range []bool{false, true} {
					add(sample{rtt: r, inflight: f, drop: d, gap: 0})
					add(sample{rtt: r, inflight: f, drop: d, gap: 2e8})
				}
			}
		}
		if level > 0 && withHuge {
			// (a 2^62 ns request also pushes the wrapper's next update 146 years out: only for properties
			// that ask about bounds and panics, not for those that need windows to keep closing)
			add(sample{rtt: 1 << 62, inflight: math.MaxInt32, drop: false, gap: 2e8})
			add(sample{rtt: 1 << 62, inflight: 5, drop: false, gap: 0}) // stays in the window: two of them overflow its RTT sum
		}
		if level > 0 && withZero {
			add(sample{rtt: 0, inflight: 11, drop: true, gap: 2e8})
		}
		return out
	}
	for _, r := range rtts {
		for _, f := range infl {
			for _, d := range []bool{false, true} {
				add(sample{rtt: r, inflight: f, drop: d})
			}
		}
	}
	if level < 0 {
		add(sample{rtt: 0, inflight: 2*est + 1, drop: true}) // C15: a drop that carries no RTT (a drop-only window)
	}
	return out
}

// limModel builds the Mode-S model for one configuration.
type limHooks struct {
	name     string
	level    int
	withZero bool
	withHuge bool
	newAux   func(li *limInst) any
	// step is called after every sample with the estimate before/after.
	step func(li *limInst, s sample, before, after int, panicMsg string, t *mc.Tr)
	// probe is called once per newly discovered state; fresh() returns a new instance in that state.
	probe func(fresh func() *limInst, t *mc.Tr)
	reg   bool
	// extraOps adds property-specific operations (labels) applied through extraApply.
	extraOps   func(li *limInst) []string
	extraApply func(li *limInst, k int, t *mc.Tr)
	fpExtra    func(li *limInst) string
}

func limModel(cfg limCfg, h limHooks) *mc.Model {
	return &mc.Model{
		Name:   h.name + "/" + cfg.algo + map[string]string{"": "", "windowed": "+windowed", "traced": "+traced"}[cfg.wrapper],
		Params: cfg.String(),
		New: func(t *mc.Tr) any {
			var reg *RecRegistry
			if h.reg {
				reg = NewRecRegistry()
			}
			li := cfg.build(reg)
			if h.newAux != nil {
				li.aux = h.newAux(li)
			}
			return li
		},
		Ops: func(s any) []string {
			li := s.(*limInst)
			var out []string
			for _, a := range li.alphabet(h.level, h.withZero, h.withHuge) {
				out = append(out, a.String())
			}
			if h.extraOps != nil {
				out = append(out, h.extraOps(li)...)
			}
			return out
		},
		Apply: func(s any, k int, t *mc.Tr) {
			li := s.(*limInst)
			al := li.alphabet(h.level, h.withZero, h.withHuge)
			if k >= len(al) {
				h.extraApply(li, k-len(al), t)
				return
			}
			before := li.top.EstimatedLimit()
			pm := li.apply(al[k])
			after := -1
			if pm == "" {
				after = li.top.EstimatedLimit()
			}
			if after != before {
				t.Nontrivial = true
			}
			if h.step != nil {
				h.step(li, al[k], before, after, pm, t)
			}
		},
		FP: func(s any) string {
			li := s.(*limInst)
			x := ""
			if h.fpExtra != nil {
				x = h.fpExtra(li)
			}
			// the sample counter is part of the state only where the oracle depends on it (AIMD ceiling)
			n := 0
			if li.cfg.algo == "aimd" {
				n = li.n
			}
			return fmt.Sprintf("%s|%d|%d|%s", mc.Fingerprint(li.top), li.clock, n, x)
		},
		Probe: func(fresh func() any, t *mc.Tr) {
			if h.probe != nil {
				h.probe(func() *limInst { return fresh().(*limInst) }, t)
			}
		},
	}
}

// limGrid is the configuration grid shared by the limit properties; level 0 = quick.
// limGridVariants: the same algorithms through their other construction paths — the NewDefault…
// constructors, a logger with debug enabled (every Debugf argument is evaluated and formatted) and
// caller-supplied Vegas functions.
func limGridVariants() []limCfg {
	return []limCfg{
		{algo: "aimd", ctor: "default", initial: 10, backoff: 0.9, incr: 1},
		{algo: "vegas", ctor: "default", initial: 20, max: 1000, smoothing: 1.0, probe: 30, debug: true},
		{algo: "gradient2", ctor: "default", initial: 20, min: 20, max: 200, smoothing: 0.2, queue: "fixed4", longWin: 600, debug: true},
		{algo: "vegas", initial: 4, max: 10, smoothing: 1.0, probe: 2, debug: true},
		{algo: "vegas", initial: 4, max: 10, smoothing: 0.5, probe: 4, custom: true, debug: true},
		{algo: "gradient", initial: 4, min: 1, max: 10, smoothing: 1.0, queue: "fixed2", tol: 2.0, probe: 3, debug: true},
		{algo: "gradient2", initial: 4, min: 1, max: 10, smoothing: 1.0, queue: "fixed2", longWin: 3, debug: true},
	}
}

func limGrid(level int) []limCfg {
	g := []limCfg{
		{algo: "aimd", initial: 4, backoff: 0.9, incr: 1},
		{algo: "aimd", initial: 10, backoff: 0.5, incr: 2},
		{algo: "aimd", initial: 3, backoff: 1.0, incr: 1},
		{algo: "aimd", initial: 11, backoff: 0.9, incr: 3}, // 11 x 0.9 = 9.9: the back-off truncates
		{algo: "aimd", initial: 4, backoff: 0.5, incr: 0},  // no increment configured: the constructor's default applies
		{algo: "vegas", initial: 4, max: 10, smoothing: 1.0, probe: 2},
		{algo: "vegas", initial: 4, max: 10, smoothing: 0.2, probe: 30},
		{algo: "vegas", initial: 12, max: 10, smoothing: 1.0, probe: 1},
		{algo: "vegas", initial: 5, max: 8, smoothing: 0.5, probe: 4},
		{algo: "gradient", initial: 4, min: 1, max: 10, smoothing: 1.0, queue: "fixed2", tol: 2.0, probe: 3},
		{algo: "gradient", initial: 6, min: 2, max: 10, smoothing: 0.2, queue: "sqrt4", tol: 1.0, probe: -1},
		{algo: "gradient", initial: 2, min: 1, max: 10, smoothing: 1.0, queue: "fixed4", tol: 2.0, probe: 2},   // initial estimate below the queue allowance
		{algo: "gradient", initial: 12, min: 10, max: 20, smoothing: 1.0, queue: "fixed2", tol: 1.0, probe: 4}, // minimum well above the queue allowance: after a probe the estimate climbs back from 2
		{algo: "gradient2", initial: 4, min: 1, max: 10, smoothing: 1.0, queue: "fixed2", longWin: 3},
		{algo: "gradient2", initial: 6, min: 2, max: 10, smoothing: 0.2, queue: "sqrt4", longWin: 10},
	}
	// lookup-table edge: the default maximum (1000) equals the length of the pre-computed square-root
	// and log10 tables, and the estimate saturates at exactly that value
	g = append(g,
		limCfg{algo: "gradient", initial: 990, min: 1, max: 1000, smoothing: 1.0, queue: "sqrt4", tol: 2.0, probe: -1},
		limCfg{algo: "gradient2", initial: 998, min: 4, max: 1000, smoothing: 1.0, queue: "sqrt4", longWin: 3},
		limCfg{algo: "vegas", initial: 998, max: 1000, smoothing: 1.0, probe: 30},
		// fractional estimates just below the table length (smoothing < 1)
		limCfg{algo: "vegas", initial: 998, max: 1000, smoothing: 0.5, probe: 30},
		limCfg{algo: "gradient2", initial: 998, min: 4, max: 1000, smoothing: 0.5, queue: "sqrt4", longWin: 3},
	)
	if level > 0 {
		g = append(g,
			limCfg{algo: "vegas", initial: 995, max: 1100, smoothing: 1.0, probe: 30},
			limCfg{algo: "gradient", initial: 995, min: 1, max: 1100, smoothing: 1.0, queue: "sqrt4", tol: 2.0, probe: 1000},
			limCfg{algo: "gradient2", initial: 995, min: 4, max: 1100, smoothing: 0.5, queue: "sqrt4", longWin: 5},
			limCfg{algo: "aimd", initial: 1, backoff: 0.9, incr: 1},
		)
	}
	return g
}
