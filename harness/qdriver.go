package main

import (
	"fmt"
	"strings"
	"time"

	"github.com/platinummonkey/go-concurrency-limits/core"
	"github.com/platinummonkey/go-concurrency-limits/limit"
	"github.com/platinummonkey/go-concurrency-limits/limiter"
	"github.com/platinummonkey/go-concurrency-limits/patterns/pool"

	"verif/mc"
	"verif/vrt"
	"verif/vrt/vchan"
	"verif/vrt/vctx"
	"verif/vrt/vtime"
)

// Queue driver: one driver thread applies a nondeterministically chosen sequence of events
// {arrival, release, timeout, cancel i} to a queue limiter, waiting for quiescence after each one,
// so that arrival order and event order are exact. The explorer enumerates every sequence up to
// the depth (preemption bound 0: only the driver's choices branch). After each event the limiter is
// compared with a reference queue (a slice). Used by C11 (order), C12 (bound/exactness) and C13
// (timeouts and cancellation at exact instants).

type qCtor struct {
	name  string
	order string // expected order: fifo|lifo
	build func(delegate core.Limiter, maxBacklog int, timeout time.Duration, evict bool, reg core.MetricRegistry) core.Limiter
	pool  bool
}

func qCtors() []qCtor {
	cfg := func(ord limiter.QueueOrdering) func(core.Limiter, int, time.Duration, bool, core.MetricRegistry) core.Limiter {
		return func(d core.Limiter, mb int, to time.Duration, ev bool, reg core.MetricRegistry) core.Limiter {
			return limiter.NewQueueBlockingLimiterFromConfig(d, limiter.QueueLimiterConfig{Ordering: ord, MaxBacklogSize: mb,
				MaxBacklogTimeout: to, BacklogEvictDoneCtx: ev, MetricRegistry: reg})
		}
	}
	return []qCtor{
		{name: "FromConfig(fifo)", order: "fifo", build: cfg(limiter.OrderingFIFO)},
		{name: "FromConfig(lifo)", order: "lifo", build: cfg(limiter.OrderingLIFO)},
		{name: "FromConfig(default)", order: "lifo", build: cfg("")},
		{name: "NewLifoBlockingLimiter", order: "lifo", build: func(d core.Limiter, mb int, to time.Duration, ev bool, reg core.MetricRegistry) core.Limiter {
			return limiter.NewLifoBlockingLimiter(d, mb, to, reg)
		}},
		{name: "NewFifoBlockingLimiter", order: "fifo", build: func(d core.Limiter, mb int, to time.Duration, ev bool, reg core.MetricRegistry) core.Limiter {
			return limiter.NewFifoBlockingLimiter(d, mb, to)
		}},
		{name: "WithDefaults", order: "lifo", build: func(d core.Limiter, mb int, to time.Duration, ev bool, reg core.MetricRegistry) core.Limiter {
			return limiter.NewQueueBlockingLimiterWithDefaults(d)
		}},
		{name: "LifoWithDefaults", order: "lifo", build: func(d core.Limiter, mb int, to time.Duration, ev bool, reg core.MetricRegistry) core.Limiter {
			return limiter.NewLifoBlockingLimiterWithDefaults(d)
		}},
		{name: "FifoWithDefaults", order: "fifo", build: func(d core.Limiter, mb int, to time.Duration, ev bool, reg core.MetricRegistry) core.Limiter {
			return limiter.NewFifoBlockingLimiterWithDefaults(d)
		}},
		{name: "Pool(fifo)", order: "fifo", pool: true, build: func(d core.Limiter, mb int, to time.Duration, ev bool, reg core.MetricRegistry) core.Limiter {
			p, err := pool.NewPool(d, pool.OrderingFIFO, mb, to, nil, reg)
			if err != nil {
				panic(err)
			}
			return p
		}},
		{name: "Pool(lifo)", order: "lifo", pool: true, build: func(d core.Limiter, mb int, to time.Duration, ev bool, reg core.MetricRegistry) core.Limiter {
			p, err := pool.NewPool(d, pool.OrderingLIFO, mb, to, nil, reg)
			if err != nil {
				panic(err)
			}
			return p
		}},
	}
}

type qdCase struct {
	prop        string // C11 | C12 | C13: which family of failures is reported
	ctor        qCtor
	fixedPool   string // "", "fifo", "lifo": use NewFixedPool instead of ctor
	limit       int
	maxBacklog  int
	timeout     time.Duration
	evict       bool
	maxArrive   int
	depth       int
	limitEvents bool // the event alphabet includes changes of the enforced limit
	preArrive   int  // arrivals performed before the nondeterministic part
}

type qdWaiter struct {
	id       int
	ctx      vctx.Context
	cancel   vctx.CancelFunc
	arrived  int64
	returned bool
	granted  bool
	retClock int64
	tok      core.Listener
	canceled bool
}

func qdScenario(cs qdCase) *mc.Scenario {
	name := cs.ctor.name
	if cs.fixedPool != "" {
		name = "FixedPool(" + cs.fixedPool + ")"
	}
	want := cs.ctor.order
	if cs.fixedPool != "" {
		want = cs.fixedPool
	}
	return &mc.Scenario{
		Name: fmt.Sprintf("%s/qdriver/%s", cs.prop, name),
		Params: fmt.Sprintf("order=%s limit=%d maxBacklog=%d timeout=%v evict=%v arrivals<=%d pre=%d depth=%d limit-events=%v", want, cs.limit, cs.maxBacklog,
			cs.timeout, cs.evict, cs.maxArrive, cs.preArrive, cs.depth, cs.limitEvents),
		Cfg: vrt.Config{MaxSteps: 20000},
		Body: func(x *mc.Exec) {
			fail := func(sig, format string, a ...any) {
				if strings.HasPrefix(sig, cs.prop+":") {
					x.Fail(strings.TrimPrefix(sig, cs.prop+":"), format, a...)
				}
			}
			reg := NewRecRegistry()
			var top core.Limiter
			var busy func() int
			var setLimit func(v int) // changes the enforced limit under the queue limiter's feet (nil for pools)
			curLimit := cs.limit
			if cs.fixedPool != "" {
				ord := pool.OrderingFIFO
				if cs.fixedPool == "lifo" {
					ord = pool.OrderingLIFO
				}
				p, err := pool.NewFixedPool("fp", ord, cs.limit, 10, time.Millisecond, time.Millisecond, 1, cs.maxBacklog, cs.timeout, nil, reg)
				if err != nil {
					panic(err)
				}
				top = p
				if s, ok := findIn[core.Strategy](p); ok {
					busy = func() int { return stratView{s: s}.Busy() }
				}
			} else {
				strat := newStrategy("precise", cs.limit, nil)
				def := newDefaultLimiter(limit.NewFixedLimit("f", cs.limit, nil), strat, 1e6, 1e6, nil)
				top = cs.ctor.build(def, cs.maxBacklog, cs.timeout, cs.evict, reg)
				busy = func() int { return stratView{s: strat}.Busy() }
				if cs.limitEvents {
					setLimit = strat.SetLimit
				}
			}
			effBacklog, effTimeout := cs.maxBacklog, cs.timeout
			if strings.Contains(cs.ctor.name, "WithDefaults") && cs.fixedPool == "" {
				effBacklog, effTimeout = 100, time.Second
			}
			// holders
			var heldToks []core.Listener
			for i := 0; i < cs.limit; i++ {
				l, ok := top.Acquire(waiterCtx(100 + i))
				if !ok {
					x.Fail("setup", "holder could not acquire")
					return
				}
				heldToks = append(heldToks, l)
			}
			var ws []*qdWaiter
			var waiting []int // reference queue: ids in arrival order
			history := []string{}
			var arriveCancelled func()
			arrive := func() {
				w := &qdWaiter{id: len(ws), arrived: vrt.Now()}
				w.ctx, w.cancel = vctx.WithCancel(waiterCtx(w.id))
				ws = append(ws, w)
				full := len(waiting) >= effBacklog
				free := len(heldToks) < curLimit
				vrt.GoL(fmt.Sprintf("W%d", w.id), func() {
					l, ok := top.Acquire(w.ctx)
					w.retClock = vrt.Now()
					w.granted, w.tok = ok, l
					w.returned = true
				})
				vrt.WaitQuiescent()
				switch {
				case free:
					if !w.returned || !w.granted {
						fail("C01:free-capacity-not-granted", "arrival %d with free capacity was not granted at once (returned=%v granted=%v)", w.id, w.returned, w.granted)
					}
					if w.granted {
						heldToks = append(heldToks, w.tok)
					}
				case full:
					if !w.returned {
						fail("C12:backlog-over-bound", "arrival %d was allowed to wait although the backlog already holds %d callers (max %d)", w.id, len(waiting), effBacklog)
						waiting = append(waiting, w.id)
					} else if w.granted {
						fail("C12:full-backlog-granted", "arrival %d at a full backlog was granted with no capacity", w.id)
						heldToks = append(heldToks, w.tok)
					} else if w.retClock != w.arrived {
						fail("C12:full-backlog-not-immediate", "arrival %d at a full backlog was refused only at +%d ns", w.id, w.retClock-w.arrived)
					}
				default:
					if w.returned {
						if w.granted {
							fail("C12:granted-over-limit", "arrival %d was granted while %d tokens are held (limit %d)", w.id, len(heldToks), curLimit)
							heldToks = append(heldToks, w.tok)
						} else {
							fail("C12:refused-with-backlog-room", "arrival %d was refused although the backlog holds %d < %d callers", w.id, len(waiting), effBacklog)
						}
					} else {
						waiting = append(waiting, w.id)
					}
				}
			}
			// a caller whose context is already cancelled when it arrives (eviction on cancel): with free
			// capacity it may be granted or refused; without, it must be refused at once and leave no
			// entry behind (the gauge check after the event sees a left-over)
			arriveCancelled = func() {
				w := &qdWaiter{id: len(ws), arrived: vrt.Now(), canceled: true}
				w.ctx, w.cancel = vctx.WithCancel(waiterCtx(w.id))
				w.cancel()
				ws = append(ws, w)
				free := len(heldToks) < curLimit
				vrt.GoL(fmt.Sprintf("W%d", w.id), func() {
					l, ok := top.Acquire(w.ctx)
					w.retClock = vrt.Now()
					w.granted, w.tok = ok, l
					w.returned = true
				})
				vrt.WaitQuiescent()
				switch {
				case !w.returned:
					fail("C13:cancel-not-honoured", "arrival %d with an already-cancelled context (eviction on) is blocked; history %v", w.id, history)
					waiting = append(waiting, w.id)
				case w.granted && !free:
					fail("C12:granted-over-limit", "arrival %d (cancelled context) was granted while %d tokens are held (limit %d)", w.id, len(heldToks), curLimit)
					heldToks = append(heldToks, w.tok)
				case w.granted:
					heldToks = append(heldToks, w.tok)
				case w.retClock != w.arrived:
					fail("C13:cancel-instant", "arrival %d with an already-cancelled context returned at +%d ns", w.id, w.retClock-w.arrived)
				}
			}
			remove := func(id int) {
				for i, v := range waiting {
					if v == id {
						waiting = append(waiting[:i:i], waiting[i+1:]...)
						return
					}
				}
			}
			// expire removes from the reference queue every waiter whose timeout lies in the past; each
			// must have returned refused exactly at its bound.
			expire := func() {
				now := vrt.Now()
				for _, id := range append([]int{}, waiting...) {
					w := ws[id]
					due := w.arrived + int64(effTimeout)
					if due > now || (due == now && !w.returned) {
						continue
					}
					if !w.returned {
						fail("C13:timeout-not-honoured", "waiter %d (arrived %d, timeout %v) is still blocked at %d; history %v", id, w.arrived, effTimeout, now, history)
						continue
					}
					if w.granted {
						fail("C13:granted-on-timeout", "waiter %d was granted at %d although nothing was released; history %v", id, w.retClock, history)
						heldToks = append(heldToks, w.tok)
					} else if w.retClock != due {
						fail("C13:timeout-instant", "waiter %d returned refused at +%d ns, its bound is +%d ns; history %v", id, w.retClock-w.arrived, int64(effTimeout), history)
					}
					remove(id)
				}
			}
			// snapshot/compare helpers
			newlyReturned := func(before map[int]bool) []*qdWaiter {
				var out []*qdWaiter
				for _, w := range ws {
					if w.returned && !before[w.id] {
						out = append(out, w)
					}
				}
				return out
			}
			// absorb takes note of waiters that returned without the reference having predicted it: those
			// that were granted must have been served from the head of the line in the configured order.
			absorb := func(nr []*qdWaiter) {
				for _, w := range nr {
					if w.granted && len(waiting) > 0 {
						exp := waiting[0]
						if want == "lifo" {
							exp = waiting[len(waiting)-1]
						}
						if w.id != exp && len(nr) == 1 {
							fail("C11:order/"+want+"-served-wrong-waiter", "%s constructor %s: waiting=%v (arrival order), waiter %d was served, expected %d; history %v",
								strings.ToUpper(want), name, waiting, w.id, exp, history)
						}
					}
					remove(w.id)
					if w.granted {
						heldToks = append(heldToks, w.tok)
					}
				}
			}
			snapshot := func() map[int]bool {
				m := map[int]bool{}
				for _, w := range ws {
					if w.returned {
						m[w.id] = true
					}
				}
				return m
			}
			checkGauge := func(when string) {
				// the callers actually blocked right now (ground truth, not the reference queue: if the
				// reference is out of step because of some other defect, the gauge is still judged fairly)
				blocked := 0
				for _, w := range ws {
					if !w.returned {
						blocked++
					}
				}
				if v, ok := reg.Gauge(core.MetricQueueSize); ok {
					if int(v) != blocked {
						fail("C12:queue-size-mismatch", "%s: queue_size=%d but %d callers are blocked (%v); history %v", when, int(v), blocked, waiting, history)
					}
					if int(v) > effBacklog {
						fail("C12:backlog-over-bound", "%s: queue_size=%d exceeds the maximum %d", when, int(v), effBacklog)
					}
					if int(v) != blocked {
						fail("C20:queue-size-gauge", "%s: queue_size gauge=%d but %d callers are blocked", when, int(v), blocked)
					}
				} else if !strings.Contains(cs.ctor.name, "WithDefaults") && !strings.Contains(cs.ctor.name, "NewFifoBlockingLimiter") {
					fail("C20:queue-size-gauge", "%s: no queue_size gauge was registered", when)
				}
				if v, ok := reg.Gauge(core.MetricQueueLimit); ok && int(v) != effBacklog {
					fail("C20:queue-limit-gauge", "%s: queue_limit gauge=%d, configured maximum backlog is %d", when, int(v), effBacklog)
				}
				if busy != nil {
					if b := busy(); b != len(heldToks) {
						fail("C02:busy-mismatch", "%s: strategy busy=%d but %d tokens are held; history %v", when, b, len(heldToks), history) // (conservation is C02's subject: inactive in the driver runs of C11–C13, C20)
					}
				}
			}
			for i := 0; i < cs.preArrive; i++ {
				vtime.Sleep(time.Millisecond)
				vrt.WaitQuiescent()
				expire()
				arrive()
				history = append(history, "A")
			}
			checkGauge("after pre-arrivals")
			for step := 0; step < cs.depth && !x.Failed(); step++ {
				// menu
				type ev struct {
					kind string
					arg  int
				}
				var menu []ev
				if len(ws) < cs.maxArrive {
					menu = append(menu, ev{"A", 0})
					if cs.evict && !cs.ctor.pool && cs.fixedPool == "" && !strings.Contains(cs.ctor.name, "ifoBlocking") && !strings.Contains(cs.ctor.name, "WithDefaults") {
						menu = append(menu, ev{"P", 0})
					}
				}
				if len(heldToks) > 0 {
					menu = append(menu, ev{"R", 0})
				}
				if len(waiting) > 0 {
					menu = append(menu, ev{"T", 0})
				}
				for _, id := range waiting {
					if !ws[id].canceled {
						menu = append(menu, ev{"X", id})
					}
				}
				if setLimit != nil {
					for _, v := range []int{1, 2, 3} {
						if v != curLimit && v <= cs.limit+1 {
							menu = append(menu, ev{"S", v})
						}
					}
				}
				if len(menu) == 0 {
					break
				}
				e := menu[vrt.Choose(len(menu))]
				history = append(history, fmt.Sprintf("%s%d", e.kind, e.arg))
				before := snapshot()
				switch e.kind {
				case "P":
					vtime.Sleep(time.Millisecond)
					vrt.WaitQuiescent()
					expire()
					arriveCancelled()
				case "A":
					vtime.Sleep(time.Millisecond) // distinct arrival (and hence expiry) instants
					vrt.WaitQuiescent()
					expire()
					arrive()
				case "R":
					tok := heldToks[0]
					heldToks = heldToks[1:]
					t0 := vrt.Now()
					complete(tok, step%3)
					vrt.WaitQuiescent()
					nr := newlyReturned(before)
					if len(waiting) == 0 || len(heldToks) >= curLimit {
						// nobody waits, or the release freed no capacity (the limit was lowered meanwhile):
						// nobody may return, and the waiters keep their places
						// (whether anybody may return here is not C11's question; the order among those served is)
						absorb(nr)
						break
					}
					exp := waiting[0]
					if want == "lifo" {
						exp = waiting[len(waiting)-1]
					}
					if len(nr) != 1 {
						fail("C10:not-served", "release with %d callers waiting %v granted %d of them (%v); history %v", len(waiting), waiting, len(nr), ids(nr), history)
						for _, w := range nr {
							remove(w.id)
							if w.granted {
								heldToks = append(heldToks, w.tok)
							}
						}
						break
					}
					w := nr[0]
					if !w.granted {
						fail("C11:refused-on-release", "waiter %d returned refused on a release", w.id)
					} else {
						heldToks = append(heldToks, w.tok)
						// a caller whose context was cancelled while eviction is off is still blocked; C11's text
						// ("callers still waiting (not timed out or cancelled)") leaves open whether it keeps its
						// turn, so both serving it in its place and passing over it are accepted
						okOrder := false
						for k := 0; k < len(waiting); k++ {
							id := waiting[k]
							if want == "lifo" {
								id = waiting[len(waiting)-1-k]
							}
							if id == w.id {
								okOrder = true
								break
							}
							if !ws[id].canceled {
								break
							}
						}
						if !okOrder {
							fail("C11:order/"+want+"-served-wrong-waiter", "%s constructor %s: release with waiting=%v (arrival order) granted waiter %d, expected %d; history %v",
								strings.ToUpper(want), name, waiting, w.id, exp, history)
						}
						if w.retClock != t0 {
							fail("C10:grant-late", "waiter %d was granted at %d, release was at %d", w.id, w.retClock, t0)
						}
					}
					remove(w.id)
				case "T":
					// let the earliest pending expiry pass
					first := waiting[0]
					for _, id := range waiting {
						if ws[id].arrived < ws[first].arrived {
							first = id
						}
					}
					due := ws[first].arrived + int64(effTimeout)
					// sleep just past the expiry instant so that the expiry itself has fired
					if d := due - vrt.Now(); d >= 0 {
						vtime.Sleep(time.Duration(d + 1))
					}
					vrt.WaitQuiescent()
					expire()
					for _, id := range waiting {
						if id == first {
							fail("C13:timeout-not-honoured", "waiter %d did not leave at its bound", first)
						}
					}
				case "S":
					setLimit(e.arg)
					curLimit = e.arg
					// an implementation may serve waiters as soon as the limit grows: in the configured order
					vrt.WaitQuiescent()
					absorb(newlyReturned(before))
				case "X":
					w := ws[e.arg]
					t0 := vrt.Now()
					w.canceled = true
					w.cancel()
					vrt.WaitQuiescent()
					nr := newlyReturned(before)
					if cs.evict && !cs.ctor.pool && cs.fixedPool == "" && !strings.Contains(cs.ctor.name, "ifoBlocking") && !strings.Contains(cs.ctor.name, "WithDefaults") {
						if len(nr) != 1 || nr[0].id != w.id || nr[0].granted {
							fail("C13:cancel-not-honoured", "cancelling waiter %d (eviction on) made %v return; history %v", w.id, ids(nr), history)
						} else if nr[0].retClock != t0 {
							fail("C13:cancel-instant", "waiter %d returned at %d after a cancel at %d", w.id, nr[0].retClock, t0)
						}
						for _, r := range nr {
							remove(r.id)
							if r.granted {
								heldToks = append(heldToks, r.tok)
							}
						}
					} else if len(nr) != 0 {
						fail("C13:cancel-without-eviction", "cancelling waiter %d (eviction off) made %v return", w.id, ids(nr))
						for _, r := range nr {
							remove(r.id)
							if r.granted {
								heldToks = append(heldToks, r.tok)
							}
						}
					}
				}
				checkGauge("after " + history[len(history)-1])
			}
			x.Observe("history=%v waiting=%v held=%d", history, waiting, len(heldToks))
			if len(history) > 1 {
				x.MarkConflict()
			}
		},
		Post: func(x *mc.Exec, r *vrt.Result) {
			if r.Stuck && !x.Failed() {
				x.Fail("stuck", "driver deadlocked: %v", r.StuckInfo)
			}
		},
	}
}

func ids(ws []*qdWaiter) []string {
	var out []string
	for _, w := range ws {
		out = append(out, fmt.Sprintf("%d(granted=%v)", w.id, w.granted))
	}
	return out
}

// orderRaceScenario: limit 2, both holders complete concurrently while n waiters (arrived in a
// known order) are parked; the two grants must go to the two waiters the order prescribes.
func orderRaceScenario(ct qCtor, n int) *mc.Scenario {
	return &mc.Scenario{
		Name:   "C11/race/" + ct.name,
		Params: fmt.Sprintf("order=%s limit=2 waiters=%d two concurrent releases", ct.order, n),
		Cfg:    vrt.Config{MaxSteps: 8000},
		Body: func(x *mc.Exec) {
			reg := NewRecRegistry()
			strat := newStrategy("precise", 2, nil)
			def := newDefaultLimiter(limit.NewFixedLimit("f", 2, nil), strat, 1e6, 1e6, nil)
			top := ct.build(def, 10, time.Second, false, reg)
			var held []core.Listener
			for i := 0; i < 2; i++ {
				l, ok := top.Acquire(waiterCtx(100 + i))
				if !ok {
					x.Fail("setup", "holder could not acquire")
					return
				}
				held = append(held, l)
			}
			granted := make([]bool, n)
			returned := make([]bool, n)
			hold := vchan.Make[int]()
			for i := 0; i < n; i++ {
				i := i
				vrt.GoL(fmt.Sprintf("W%d", i), func() {
					l, ok := top.Acquire(waiterCtx(i))
					granted[i], returned[i] = ok, true
					_ = l
					hold.Recv() // keep the token (never released in this scenario)
				})
				vrt.WaitQuiescent()
			}
			h0 := vrt.GoL("H0", func() { held[0].OnSuccess() })
			h1 := vrt.GoL("H1", func() { held[1].OnDropped() })
			vrt.Join(h0, h1)
			vrt.WaitQuiescent()
			var got []int
			for i := range granted {
				if granted[i] {
					got = append(got, i)
				}
			}
			want := []int{0, 1}
			if ct.order == "lifo" {
				want = []int{n - 2, n - 1}
			}
			x.Observe("granted=%v", got)
			x.MarkConflict()
			if len(got) == 2 && (got[0] != want[0] || got[1] != want[1]) {
				x.Fail("order/"+ct.order+"-served-wrong-waiter", "two concurrent releases with %d waiters (arrival order 0..%d) granted %v, expected %v", n, n-1, got, want)
			}
		},
	}
}

// giveUpRaceScenario: limit 1 held; n waiters parked in a known order; then the holder's release
// races the head's give-up (cancellation with eviction on, or its backlog timeout on the eager
// clock). Whatever the interleaving, the released capacity must end with a caller that is still
// waiting, in the configured order: if the head returned refused, the next in line holds it.
func giveUpRaceScenario(ct qCtor, n int, byTimeout bool, lateArrival ...bool) *mc.Scenario {
	late := len(lateArrival) > 0 && lateArrival[0]
	how := "cancel"
	if byTimeout {
		how = "timeout"
	}
	return &mc.Scenario{
		Name:   "C11/giveup-race/" + ct.name,
		Params: fmt.Sprintf("order=%s limit=1 waiters=%d head gives up by %s while the holder releases; another caller arrives afterwards=%v", ct.order, n, how, late),
		Cfg:    vrt.Config{MaxSteps: 8000, EagerClock: byTimeout, Horizon: int64(10 * time.Second)},
		Body: func(x *mc.Exec) {
			n := n // (a newcomer may be added below: per execution)
			reg := NewRecRegistry()
			strat := newStrategy("precise", 1, nil)
			def := newDefaultLimiter(limit.NewFixedLimit("f", 1, nil), strat, 1e6, 1e6, nil)
			// the head's timeout is short, everybody else's is long (per-arrival order below)
			top := ct.build(def, 10, 50*time.Millisecond, !byTimeout, reg)
			held, ok := top.Acquire(waiterCtx(100))
			if !ok {
				x.Fail("setup", "holder could not acquire")
				return
			}
			granted := make([]bool, n)
			returned := make([]bool, n)
			cancels := make([]vctx.CancelFunc, n)
			toks := make([]core.Listener, n)
			hold := vchan.Make[int]()
			for i := 0; i < n; i++ {
				i := i
				var ctx vctx.Context
				ctx, cancels[i] = vctx.WithCancel(waiterCtx(i))
				vrt.GoL(fmt.Sprintf("W%d", i), func() {
					l, ok := top.Acquire(ctx)
					toks[i] = l
					granted[i], returned[i] = ok, true
					if ok {
						hold.Recv() // keep the token
					}
				})
				vrt.WaitQuiescent()
				if byTimeout {
					vtime.Sleep(10 * time.Millisecond) // distinct expiry instants; the first to arrive expires first
					vrt.WaitQuiescent()
				}
			}
			head, next := 0, 1
			if ct.order == "lifo" {
				head, next = n-1, n-2
			}
			if byTimeout && ct.order == "lifo" {
				return // the earliest expiry belongs to the oldest waiter, which is the head only under FIFO
			}
			var ths []*vrt.Thread
			ths = append(ths, vrt.GoL("H", func() { held.OnSuccess() }))
			if !byTimeout {
				ths = append(ths, vrt.GoL("X", func() { cancels[head]() }))
			} else {
				// let virtual time reach the head's expiry while the release is in progress (eager clock)
				ths = append(ths, vrt.GoL("T", func() { vtime.Sleep(45 * time.Millisecond) }))
			}
			vrt.Join(ths...)
			vrt.WaitQuiescent()
			x.Observe("granted=%v returned=%v", granted, returned)
			x.MarkConflict()
			busy := stratView{s: strat}.Busy()
			holders := 0
			for _, g := range granted {
				if g {
					holders++
				}
			}
			if returned[head] && !granted[head] && !granted[next] && vrt.Now() < int64(55*time.Millisecond) {
				x.Fail("order/grant-lost-to-departed-caller", "%s: the head (waiter %d) returned refused, yet the released capacity did not go to the next caller in line (waiter %d): granted=%v returned=%v strategy busy=%d",
					strings.ToUpper(ct.order), head, next, granted, returned, busy)
			}
			if busy != holders {
				x.Fail("order/grant-to-nobody", "strategy busy=%d but %d callers hold a token (granted=%v returned=%v)", busy, holders, granted, returned)
			}
			for i := range granted {
				if granted[i] && i != head && i != next {
					x.Fail("order/"+ct.order+"-served-wrong-waiter", "waiter %d was granted; head is %d, next is %d", i, head, next)
				}
			}
			// follow-up: whoever holds the token releases it; each release must serve the next caller in
			// the configured order among those still waiting (the race must not have damaged the backlog)
			if late && !byTimeout {
				// one more caller queues up behind (FIFO) / in front of (LIFO) the survivors
				granted, returned, toks = append(granted, false), append(returned, false), append(toks, nil)
				k := n
				n++
				vrt.GoL(fmt.Sprintf("W%d", k), func() {
					l, ok := top.Acquire(waiterCtx(k))
					toks[k] = l
					granted[k], returned[k] = ok, true
					if ok {
						hold.Recv()
					}
				})
				vrt.WaitQuiescent()
			}
			released := make([]bool, n)
			for round := 0; round < n && !x.Failed() && !byTimeout; round++ {
				holder := -1
				for i := range granted {
					if granted[i] && !released[i] {
						holder = i
					}
				}
				if holder < 0 {
					break
				}
				want := -1
				for i := 0; i < n; i++ {
					if !returned[i] && (want < 0 || ct.order == "lifo") {
						want = i
					}
				}
				released[holder] = true
				toks[holder].OnSuccess()
				vrt.WaitQuiescent()
				if want >= 0 && !granted[want] {
					got := -1
					for i := range granted {
						if granted[i] && !released[i] {
							got = i
						}
					}
					x.Fail("order/"+ct.order+"-served-wrong-waiter", "%s after the give-up race: waiter %d released, waiter %d was next in line but waiter %d was served (granted=%v returned=%v)",
						strings.ToUpper(ct.order), holder, want, got, granted, returned)
				}
			}
		},
	}
}
