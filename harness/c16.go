package main

import (
	"fmt"

	"github.com/platinummonkey/go-concurrency-limits/core"
	"github.com/platinummonkey/go-concurrency-limits/limit"

	"verif/mc"
	"verif/vrt"
)

// C16 — change notifications are complete and agree with the reported estimate. Mode S over
// sample / SetLimit / NotifyOnChange sequences for every limit implementation and wrapper.

func init() { props["C16"] = runC16 }

type recSub struct {
	calls int
	last  int
}

type c16Aux struct {
	subs []*recSub
}

func (a *c16Aux) register(l core.Limit) {
	s := &recSub{}
	a.subs = append(a.subs, s)
	l.NotifyOnChange(func(v int) { s.calls++; s.last = v })
}

// check compares every listener registered before the operation with the estimate before/after.
func (a *c16Aux) check(cls string, n int, callsBefore []int, before, after int, what string, t *mc.Tr) {
	for i := 0; i < n; i++ {
		s := a.subs[i]
		if after != before && s.calls == callsBefore[i] {
			t.Fail(cls+"/change-not-notified", "%s changed the estimate %d -> %d but listener %d was not called", what, before, after, i)
		}
		if s.calls > 0 && s.last != after {
			t.Fail(cls+"/last-delivered-differs", "after %s listener %d last received %d but EstimatedLimit() reports %d", what, i, s.last, after)
		}
	}
}

func (a *c16Aux) snapshot() []int {
	out := make([]int, len(a.subs))
	for i, s := range a.subs {
		out[i] = s.calls
	}
	return out
}

func (a *c16Aux) fp() string {
	x := ""
	for _, s := range a.subs {
		x += fmt.Sprintf("(%v,%d)", s.calls > 0, s.last)
	}
	return x
}

func c16Hooks() limHooks {
	var snap []int
	return limHooks{
		name: "C16", level: 0, withZero: false, withHuge: false,
		newAux:  func(li *limInst) any { return &c16Aux{} },
		fpExtra: func(li *limInst) string { return li.aux.(*c16Aux).fp() },
		extraOps: func(li *limInst) []string {
			if len(li.aux.(*c16Aux).subs) < 3 {
				return []string{"NotifyOnChange(new listener)"}
			}
			return nil
		},
		extraApply: func(li *limInst, k int, t *mc.Tr) {
			a := li.aux.(*c16Aux)
			before := li.top.EstimatedLimit()
			a.register(li.top)
			if after := li.top.EstimatedLimit(); after != before {
				t.Fail(li.cfg.algo+"/register-changed-estimate", "NotifyOnChange changed the estimate %d -> %d", before, after)
			}
			t.Nontrivial = true
			_ = snap
		},
		step: nil,
	}
}

// c16Model wraps limModel so that the listener snapshot is taken before each sample.
func c16Model(cfg limCfg) *mc.Model {
	h := c16Hooks()
	m := limModel(cfg, h)
	inner := m.Apply
	m.Apply = func(s any, k int, t *mc.Tr) {
		li := s.(*limInst)
		a := li.aux.(*c16Aux)
		al := li.alphabet(h.level, h.withZero, h.withHuge)
		if k >= len(al) {
			inner(s, k, t)
			return
		}
		n := len(a.subs)
		cb := a.snapshot()
		before := li.top.EstimatedLimit()
		pm := li.apply(al[k])
		if pm != "" {
			t.Note("panic (reported by C04 only): " + fmt.Sprintf("OnSample(%s) panicked: %s", al[k], pm))
			return
		}
		after := li.top.EstimatedLimit()
		if after != before {
			t.Nontrivial = true
		}
		a.check(cfg.algo+wrapTag(cfg.wrapper), n, cb, before, after, "OnSample("+al[k].String()+")", t)
		if in := li.inner.EstimatedLimit(); in != after {
			t.Fail(cfg.algo+wrapTag(cfg.wrapper)+"/wrapper-estimate-differs", "wrapper reports %d, its delegate %d", after, in)
		}
	}
	return m
}

func wrapTag(w string) string {
	if w == "" {
		return ""
	}
	return "+" + w
}

// simple limits and forwarding wrappers
type c16Simple struct {
	kind   string
	top    core.Limit
	set    *limit.SettableLimit
	script *ScriptLimit
	aux    *c16Aux
	n      int
}

func c16SimpleModel(kind string) *mc.Model {
	type op struct {
		name string
		do   func(s *c16Simple)
	}
	samples := []sample{{rtt: baseRTT, inflight: 3}, {rtt: 2 * baseRTT, inflight: 12, drop: true}, {rtt: 0, inflight: 0}, {rtt: baseRTT + baseRTT/2 + 7, inflight: 1 << 20}}
	ops := func(s *c16Simple) []op {
		var out []op
		for _, sm := range samples {
			sm := sm
			out = append(out, op{"OnSample(" + sm.String() + ")", func(s *c16Simple) {
				s.n++
				s.top.OnSample(int64(s.n)*3e8, sm.rtt, sm.inflight, sm.drop)
			}})
		}
		if s.set != nil {
			for _, v := range []int{0, 1, 5, 7, -1} {
				v := v
				out = append(out, op{fmt.Sprintf("SetLimit(%d)", v), func(s *c16Simple) { s.set.SetLimit(v) }})
			}
		}
		if len(s.aux.subs) < 3 {
			out = append(out, op{"NotifyOnChange(new listener)", func(s *c16Simple) { s.aux.register(s.top) }})
		}
		return out
	}
	return &mc.Model{
		Name:   "C16/" + kind,
		Params: "samples, SetLimit, up to 3 listeners registered at any point",
		New: func(t *mc.Tr) any {
			s := &c16Simple{kind: kind, aux: &c16Aux{}}
			switch kind {
			case "settable":
				s.set = limit.NewSettableLimit("s", 3, nil)
				s.top = s.set
			case "fixed":
				s.top = limit.NewFixedLimit("f", 3, nil)
			case "traced(settable)":
				s.set = limit.NewSettableLimit("s", 3, nil)
				s.top = limit.NewTracedLimit(s.set, limit.NoopLimitLogger{})
			case "traced(script)":
				s.script = &ScriptLimit{Traj: []int{3, 4, 4, 2, 9}}
				s.top = limit.NewTracedLimit(s.script, limit.NoopLimitLogger{})
			case "windowed(settable)":
				s.set = limit.NewSettableLimit("s", 3, nil)
				w, err := limit.NewWindowedLimit("w", 1e8, 1e8, 10, 1, s.set, nil)
				if err != nil {
					panic(err)
				}
				s.top = w
			case "traced(windowed(script))":
				s.script = &ScriptLimit{Traj: []int{3, 4, 4, 2, 9}}
				w, err := limit.NewWindowedLimit("w", 1e8, 1e8, 10, 1, s.script, nil)
				if err != nil {
					panic(err)
				}
				s.top = limit.NewTracedLimit(w, limit.NoopLimitLogger{})
			}
			return s
		},
		Ops: func(x any) []string {
			var out []string
			for _, o := range ops(x.(*c16Simple)) {
				out = append(out, o.name)
			}
			return out
		},
		Apply: func(x any, k int, t *mc.Tr) {
			s := x.(*c16Simple)
			o := ops(s)[k]
			n := len(s.aux.subs)
			cb := s.aux.snapshot()
			before := s.top.EstimatedLimit()
			nScript := 0
			if s.script != nil {
				nScript = len(s.script.Samples)
			}
			if pm := mc.Safe(func() { o.do(s) }); pm != "" {
				t.Note("panic (reported by C04 only): " + fmt.Sprintf("%s panicked: %s", o.name, pm))
				return
			}
			after := s.top.EstimatedLimit()
			if after != before {
				t.Nontrivial = true
			}
			if len(s.aux.subs) == n { // not a registration
				s.aux.check(kind, n, cb, before, after, o.name, t)
			}
			var inner core.Limit
			if s.set != nil {
				inner = s.set
			} else if s.script != nil {
				inner = s.script
			}
			if inner != nil && inner.EstimatedLimit() != after {
				t.Fail(kind+"/wrapper-estimate-differs", "wrapper reports %d, its delegate %d", after, inner.EstimatedLimit())
			}
			if kind == "traced(script)" && len(o.name) > 8 && o.name[:8] == "OnSample" {
				if len(s.script.Samples) != nScript+1 {
					t.Fail(kind+"/sample-not-forwarded", "%s reached the delegate %d times", o.name, len(s.script.Samples)-nScript)
				} else {
					got := s.script.Samples[nScript]
					sm := samples[k]
					if got.Start != int64(s.n)*3e8 || got.RTT != sm.rtt || got.InFlight != sm.inflight || got.Drop != sm.drop {
						t.Fail(kind+"/sample-altered", "%s reached the delegate as %v", o.name, got)
					}
				}
			}
		},
		FP: func(x any) string {
			s := x.(*c16Simple)
			return mc.Fingerprint(s.top) + "|" + s.aux.fp() + fmt.Sprint(s.n%2)
		},
	}
}

func runC16(c *Ctx) {
	depth := c.Pick(5, 6)
	for _, cfg := range limGrid(0) {
		for _, w := range []string{"", "windowed", "traced"} {
			cfg := cfg
			cfg.wrapper = w
			c.runBFS(c16Model(cfg), mc.BFSOptions{MaxDepth: depth, DevBound: c.Pick(1, 2), MaxStates: c.Pick(400000, 3000000)})
		}
	}
	for _, k := range []string{"settable", "fixed", "traced(settable)", "traced(script)", "windowed(settable)", "traced(windowed(script))"} {
		c.runBFS(c16SimpleModel(k), mc.BFSOptions{MaxDepth: c.Pick(7, 9), MaxStates: 400000})
	}
	c16ConcurrentAll(c)
}

// ---- concurrent part: notifications delivered by racing updates must not go stale ----

func c16Concurrent(name string, mk func() core.Limit, ops []func(l core.Limit), labels []string) *mc.Scenario {
	type pair struct{ a, b int }
	var pairs []pair
	for i := range ops {
		for j := i; j < len(ops); j++ {
			pairs = append(pairs, pair{i, j})
		}
	}
	return &mc.Scenario{
		Name:   "C16/concurrent/" + name,
		Params: fmt.Sprintf("two threads apply one of %v each to a shared instance; one listener registered before, one registered concurrently", labels),
		Body: func(x *mc.Exec) {
			l := mk()
			p := pairs[vrt.Choose(len(pairs))]
			before := l.EstimatedLimit()
			early, late := &recSub{}, &recSub{}
			// a listener is foreign code: it may be preempted on entry (a schedule point), which is what
			// exposes notifications delivered outside the limit's lock
			l.NotifyOnChange(func(v int) { vrt.Yield(); early.calls++; early.last = v })
			ta := vrt.Go(func() { ops[p.a](l) })
			tb := vrt.Go(func() { ops[p.b](l) })
			tc := vrt.Go(func() { l.NotifyOnChange(func(v int) { vrt.Yield(); late.calls++; late.last = v }) })
			vrt.Join(ta, tb, tc)
			after := l.EstimatedLimit()
			x.Observe("%s || %s: %d -> %d early=%v late=%v", labels[p.a], labels[p.b], before, after, *early, *late)
			x.MarkConflict()
			if after != before && early.calls == 0 {
				x.Fail(name+"/change-not-notified", "%s || %s changed the estimate %d -> %d but the listener registered beforehand was never called", labels[p.a], labels[p.b], before, after)
			}
			for i, s := range []*recSub{early, late} {
				if s.calls > 0 && s.last != after {
					x.Fail(name+"/last-delivered-differs", "%s || %s: listener %d last received %d but EstimatedLimit() reports %d once both calls returned", labels[p.a], labels[p.b], i, s.last, after)
				}
			}
		},
	}
}

func c16ConcurrentAll(c *Ctx) {
	pb := c.Pick(2, 3)
	smp := func(rtt int64, infl int, drop bool) func(core.Limit) {
		return func(l core.Limit) { l.OnSample(0, rtt, infl, drop) }
	}
	ops := []func(core.Limit){smp(baseRTT, 40, false), smp(3*baseRTT, 40, false), smp(baseRTT, 40, true)}
	labels := []string{"OnSample(healthy)", "OnSample(slow)", "OnSample(drop)"}
	for _, cfg := range limGrid(0) {
		if cfg.initial > 100 {
			continue
		}
		for _, w := range []string{"", "traced"} {
			cfg := cfg
			cfg.wrapper = w
			name := cfg.algo + wrapTag(w)
			c.Explore(c16Concurrent(name, func() core.Limit {
				li := cfg.build(nil)
				// warm: a baseline exists, so that the racing samples reach the update branch
				li.top.OnSample(0, baseRTT, 40, false)
				li.top.OnSample(0, baseRTT, 40, false)
				return li.top
			}, ops, labels), mc.Options{PreemptBound: pb, DevBound: 0, NoCache: true})
		}
	}
	setOps := []func(core.Limit){
		func(l core.Limit) { l.(*limit.SettableLimit).SetLimit(5) },
		func(l core.Limit) { l.(*limit.SettableLimit).SetLimit(7) },
		smp(baseRTT, 4, false),
	}
	c.Explore(c16Concurrent("settable", func() core.Limit { return limit.NewSettableLimit("s", 3, nil) }, setOps,
		[]string{"SetLimit(5)", "SetLimit(7)", "OnSample"}), mc.Options{PreemptBound: pb, NoCache: true})
}
