package main

import (
	"fmt"
	"reflect"
	"time"

	"github.com/platinummonkey/go-concurrency-limits/core"
	"github.com/platinummonkey/go-concurrency-limits/strategy"

	"verif/mc"
	"verif/vrt"
	"verif/vrt/vctx"
)

// C02 — capacity conservation. Mode T with the eager clock: timeouts and deadline expiries may
// fire at any point of any thread's progress (one preemption each), a canceller thread cancels a
// caller's context at any point, and every granted listener is completed with a scripted outcome.
// Oracle: listener != nil iff ok; when everything has completed, every counter is exactly zero
// and the limiter admits exactly its full limit again.

func init() { props["C02"] = runC02 }

type c02Case struct {
	kind     string
	strategy string
	limit    int
	callers  int
	outcome  int  // holder outcome; caller i completes with (outcome+1+i)%3
	cancel   bool // a canceller thread cancels caller 0's context
	keys     []string
	eager    bool   // timers may fire at any point (queue family: give-up racing hand-off)
	remove   string // partitioned strategies: a thread removes this partition while its tokens are outstanding
	backlog  int    // queue family: maximum backlog (0 = 10); 1 makes one of two racing callers hit a full backlog
	fast     bool   // every completion is faster than the minimum RTT threshold (successes are not samples)
}

// endState checks that nothing is held anywhere and that the full limit is admitted again.
func endState(x *mc.Exec, st *stack, key string) {
	busy, lim := st.busy()
	if busy < 0 || lim < 0 {
		// the pool's private strategy could not be located (layout changed): the counters are not
		// observable, the re-admission epilogue below still is
		x.OracleSkipped++
	} else {
		if busy != 0 {
			x.Fail("leak/strategy-busy", "strategy busy=%d after every granted listener completed", busy)
		}
		if lim != max1(st.limit) {
			x.Fail("limit-changed", "strategy limit=%d, expected %d", lim, st.limit)
		}
	}
	switch s := st.strat.(type) {
	case *strategy.LookupPartitionStrategy:
		for _, k := range []string{"a", "b"} {
			if b, err := s.BinBusyCount(k); err == nil && b != 0 {
				x.Fail("leak/bin", "lookup bin %s busy=%d at the end", k, b)
			}
		}
		if u, ok := findNamed(s, "unknownPartition"); ok {
			if b, ok2 := mc.FieldInt(u, "busy"); ok2 && b != 0 {
				x.Fail("leak/bin", "lookup unknown bin busy=%d at the end", b)
			}
		}
	case *strategy.PredicatePartitionStrategy:
		for i := 0; i < 2; i++ {
			// (an index equal to the number of partitions left after a removal panics inside the accessor —
			// a bounds slip outside the given properties, see DESIGN 8 — so stop at the first failure)
			var b int
			var err error
			if pm := mc.Safe(func() { b, err = s.BinBusyCount(i) }); pm != "" || err != nil {
				break
			}
			if b != 0 {
				x.Fail("leak/bin", "predicate bin %d busy=%d at the end", i, b)
			}
		}
	}
	if g, ok := st.gauge(); ok && g != 0 {
		x.Fail("leak/gauge", "limiter in-flight gauge=%d at the end", g)
	}
	if st.family == "queue" {
		if q, ok := st.queueSize(); ok && q != 0 {
			x.Fail("leak/backlog", "queue_size=%d at the end", q)
		}
	}
	// epilogue: exactly `limit` grants through the whole stack (state left behind in a wrapper — a held
	// lock, a stale backlog entry — would block or refuse here), then one more through the
	// non-blocking delegate, which must be refused
	ctx := ctxFor(key)
	var toks []core.Listener
	top := st.top
	if st.family == "deadline" && st.def != nil {
		top = st.def // the stack's fixed deadline may have passed by now: it then refuses by design
	}
	for i := 0; i < st.limit; i++ {
		l, ok := top.Acquire(ctx)
		if !ok {
			x.Fail("leak/refused", "epilogue: acquire %d of %d refused although nothing is held", i+1, st.limit)
			break
		}
		toks = append(toks, l)
	}
	if len(toks) == st.limit && st.def != nil {
		if l, ok := st.def.Acquire(ctx); ok {
			x.Fail("over-admit", "epilogue: acquire %d granted beyond the limit %d", st.limit+1, st.limit)
			l.OnIgnore()
		}
	}
	for _, l := range toks {
		l.OnIgnore()
	}
	if b, _ := st.busy(); b > 0 {
		x.Fail("leak/strategy-busy", "strategy busy=%d after the epilogue", b)
	}
}

func findNamed(obj any, name string) (any, bool) {
	f, ok := mc.Field(obj, name)
	if !ok || !f.IsValid() {
		return nil, false
	}
	if f.Kind() == reflect.Ptr && !f.IsNil() {
		return fieldIface(f), true
	}
	return nil, false
}

func c02Scenario(cs c02Case) *mc.Scenario {
	return &mc.Scenario{
		Name: fmt.Sprintf("C02/%s", cs.kind),
		Params: fmt.Sprintf("strategy=%s limit=%d callers=%d holder-outcome=%s cancel=%v keys=%v eager-clock=%v remove-partition=%q max-backlog=%d", cs.strategy, cs.limit, cs.callers,
			outcomeNames[cs.outcome], cs.cancel, cs.keys, cs.eager, cs.remove, cs.backlog) + map[bool]string{true: " below-rtt-threshold", false: ""}[cs.fast],
		Cfg: vrt.Config{EagerClock: cs.eager, MaxSteps: 6000},
		Body: func(x *mc.Exec) {
			st := buildStack(cs.kind, cs.limit, stackOpts{strategy: cs.strategy, timeout: 20 * time.Millisecond, deadlineIn: 20 * time.Millisecond, maxBacklog: cs.backlog, minRTT: map[bool]int64{true: 1e15, false: 0}[cs.fast]})
			key := func(i int) string {
				if len(cs.keys) == 0 {
					return ""
				}
				return cs.keys[i%len(cs.keys)]
			}
			mkctx := func(i int) vctx.Context {
				c := waiterCtx(i)
				if k := key(i); k != "" {
					c = vctx.WithValue(c, partKey, k)
				}
				return c
			}
			var held []core.Listener
			for i := 0; i < cs.limit; i++ {
				l, ok := st.top.Acquire(mkctx(100 + i))
				if !ok {
					x.Fail("setup", "holder could not acquire")
					return
				}
				held = append(held, l)
			}
			inAcq := make([]bool, cs.callers)
			cancels := make([]vctx.CancelFunc, cs.callers)
			ctxs := make([]vctx.Context, cs.callers)
			for i := 0; i < cs.callers; i++ {
				ctxs[i], cancels[i] = vctx.WithCancel(mkctx(i))
			}
			var ths, callers []*vrt.Thread
			ths = append(ths, vrt.GoL("H", func() {
				for i, l := range held {
					complete(l, (cs.outcome+i)%3)
				}
			}))
			results := make([]string, cs.callers)
			for i := 0; i < cs.callers; i++ {
				i := i
				t := vrt.GoL(fmt.Sprintf("C%d", i), func() {
					inAcq[i] = true
					l, ok := st.top.Acquire(ctxs[i])
					inAcq[i] = false
					if ok != (l != nil) {
						x.Fail("listener-iff-ok", "Acquire returned listener=%v ok=%v", l != nil, ok)
					}
					results[i] = fmt.Sprintf("%v", ok)
					if ok && l != nil {
						complete(l, (cs.outcome+1+i)%3)
					}
				})
				callers = append(callers, t)
			}
			if cs.cancel {
				ths = append(ths, vrt.GoL("X", func() { cancels[0]() }))
			}
			if cs.remove != "" {
				ths = append(ths, vrt.GoL("R", func() {
					switch s := st.strat.(type) {
					case *strategy.LookupPartitionStrategy:
						s.RemovePartition(cs.remove)
					case *strategy.PredicatePartitionStrategy:
						s.RemovePartitionsMatching(ctxFor(cs.remove))
					}
				}))
			}
			vrt.Join(ths...)
			// flush: whoever is still blocked once nothing else can run gets cancelled; callers of a
			// limiter that ignores cancellation leave through their timeout (the clock runs at quiescence)
			vrt.WaitQuiescent()
			for i := range inAcq {
				if inAcq[i] {
					cancels[i]()
				}
			}
			vrt.Join(callers...)
			x.Observe("results=%v clock=%d", results, vrt.Now())
			x.MarkConflict()
			ek := key(0)
			if cs.remove != "" && ek == cs.remove {
				ek = map[string]string{"a": "b", "b": "a"}[cs.remove] // a partition that still exists
			}
			endState(x, st, ek)
		},
		Post: func(x *mc.Exec, r *vrt.Result) {
			if r.Stuck && !x.Failed() {
				x.Fail("stuck", "execution cannot finish even after cancelling every blocked caller: %v", r.StuckInfo)
			}
		},
	}
}

func runC02(c *Ctx) {
	pb := c.Pick(2, 3)
	opt := mc.Options{PreemptBound: pb, DevBound: 0}
	// non-blocking stacks over every strategy kind
	for _, sk := range []string{"simple", "precise", "lookup", "predicate"} {
		keys := [][]string{nil}
		if sk == "lookup" {
			keys = [][]string{{"a", "b"}, {"a", "zz"}}
		}
		if sk == "predicate" {
			keys = [][]string{{"a", "b"}, {"b", "b"}}
		}
		for _, ks := range keys {
			for o := 0; o < 3; o++ {
				c.Explore(c02Scenario(c02Case{kind: "default", strategy: sk, limit: 1, callers: 2, outcome: o, keys: ks}), opt)
			}
			// successes faster than the minimum RTT threshold return their unit without becoming a sample
			c.Explore(c02Scenario(c02Case{kind: "default", strategy: sk, limit: 1, callers: 2, outcome: 0, keys: ks, fast: true}), opt)
			if c.Thorough() {
				c.Explore(c02Scenario(c02Case{kind: "default", strategy: sk, limit: 2, callers: 3, outcome: 0, keys: ks}), opt)
			}
			if len(ks) > 0 {
				// a partition is removed while one of its tokens is outstanding (the holder's key is ks[0])
				c.Explore(c02Scenario(c02Case{kind: "default", strategy: sk, limit: 2, callers: 2, outcome: 2, keys: ks, remove: ks[0]}), opt)
			}
		}
	}
	kinds := append([]string{}, blockingKinds...)
	kinds = append(kinds, "pool-random", "pool-fifo", "pool-lifo", "fixedpool-random", "fixedpool-fifo", "fixedpool-lifo")
	for j, kind := range kinds {
		// eager clock: give-up timers (backlog timeout) race hand-offs and releases
		eager := isQueueKind(kind)
		if kind == "deadline" || kind == "blocking50" {
			// the deadline / poll-timeout expiry races the release instead of waiting for quiescence
			c.ExploreBig(c02Scenario(c02Case{kind: kind, strategy: "precise", limit: 1, callers: 2, outcome: (j + 2) % 3, eager: true}),
				mc.Options{PreemptBound: map[string]int{"deadline": 2, "blocking50": c.Pick(1, 2)}[kind]})
		}
		if kind == "blocking0" || kind == "deadline" || kind == "queue-fifo" || kind == "queue-lifo-evict" {
			// wrappers over a partitioned strategy: the waiter's own bin is charged and released (holder key a, waiters a and b / zz)
			sk, ks := "lookup", []string{"a", "b"}
			if kind == "deadline" || kind == "queue-lifo-evict" {
				sk, ks = "predicate", []string{"b", "a"}
			}
			c.Explore(c02Scenario(c02Case{kind: kind, strategy: sk, limit: 1, callers: 2, outcome: (j + 1) % 3, eager: eager, keys: ks}), mc.Options{PreemptBound: c.Pick(1, 2)})
		}
		if !c.Thorough() {
			// quick: one holder outcome per kind (rotating), no canceller at preemption bound 2,
			// canceller at preemption bound 1
			o := j % 3
			c.Explore(c02Scenario(c02Case{kind: kind, strategy: "precise", limit: 1, callers: 2, outcome: o, eager: eager}), opt)
			c.Explore(c02Scenario(c02Case{kind: kind, strategy: "precise", limit: 1, callers: 2, outcome: (o + 1) % 3, cancel: true, eager: eager}),
				mc.Options{PreemptBound: 1})
			if eager && (kind == "queue-lifo" || kind == "pool-fifo" || kind == "fixedpool-lifo") {
				// a full backlog: the refused caller must hold nothing
				c.Explore(c02Scenario(c02Case{kind: kind, strategy: "precise", limit: 1, callers: 2, outcome: o, eager: eager, backlog: 1}), mc.Options{PreemptBound: 2})
			}
			if kind == "blocking0" || kind == "deadline" || kind == "queue-fifo-evict" || kind == "pool-lifo" {
				nc := 3
				if !eager {
					nc = 2 // the condition-variable limiters with three waiters cost a minute: thorough tier
				}
				c.ExploreBig(c02Scenario(c02Case{kind: kind, strategy: "simple", limit: 2, callers: nc, outcome: (o + 2) % 3, eager: eager}), mc.Options{PreemptBound: 1})
			}
			continue
		}
		for o := 0; o < 3; o++ {
			c.Explore(c02Scenario(c02Case{kind: kind, strategy: "precise", limit: 1, callers: 2, outcome: o, eager: eager}), opt)
		}
		c.ExploreBig(c02Scenario(c02Case{kind: kind, strategy: "precise", limit: 1, callers: 2, outcome: j % 3, cancel: true, eager: eager}), mc.Options{PreemptBound: 2})
		c.ExploreBig(c02Scenario(c02Case{kind: kind, strategy: "simple", limit: 2, callers: 3, outcome: 1, cancel: true, eager: eager}), mc.Options{PreemptBound: 1})
	}
}

func isQueueKind(kind string) bool {
	switch kind {
	case "queue-fifo", "queue-lifo", "queue-fifo-evict", "queue-lifo-evict", "pool-fifo", "pool-lifo", "fixedpool-fifo", "fixedpool-lifo":
		return true
	}
	return false
}
