//go:build race

package vrt

import (
	"runtime"
	"unsafe"
)

// RaceMode reports whether the binary was built with the race detector.
const RaceMode = true

// raceHandoffOut/In bracket every baton hand-off: while disabled, the goroutine's synchronisation
// events (the channel operations of the hand-off) are ignored by the race detector, so the
// scheduler adds no happens-before edge of its own.
//
//go:norace
func raceHandoffOut() { runtime.RaceDisable() }

//go:norace
func raceHandoffIn() { runtime.RaceEnable() }

// RaceAddr carries the happens-before edges of a modelled synchronisation object (channel,
// WaitGroup, Once, thread end, timer) to the race detector.
type RaceAddr struct{ b byte }

//go:norace
func (r *RaceAddr) Acquire() { runtime.RaceAcquire(unsafe.Pointer(&r.b)) }

//go:norace
func (r *RaceAddr) Release() { runtime.RaceReleaseMerge(unsafe.Pointer(&r.b)) }
