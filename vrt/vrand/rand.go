// Package vrand stands in for math/rand: every draw is an environment choice over a small menu
// (choice 0 is the default answer; any other answer costs one deviation in the explorer).
package vrand

import (
	"math"

	"verif/vrt"
)

// Float64 draws from {0.0, 0.5, 1-2^-53}.
func Float64() float64 {
	switch vrt.EnvChoose(3) {
	case 1:
		return 0.5
	case 2:
		return math.Nextafter(1, 0)
	}
	return 0
}

func Float32() float32 { return float32(Float64()) * 0.999 }

// Intn draws from {0, n/2, n-1}.
func Intn(n int) int {
	if n <= 0 {
		panic("invalid argument to Intn")
	}
	if n == 1 {
		return 0
	}
	if n == 2 {
		return vrt.EnvChoose(2)
	}
	switch vrt.EnvChoose(3) {
	case 1:
		return n / 2
	case 2:
		return n - 1
	}
	return 0
}

func Int63n(n int64) int64 { return int64(Intn(int(n))) }
func Int31n(n int32) int32 { return int32(Intn(int(n))) }
func Int() int             { return Intn(math.MaxInt32) }
func Int63() int64         { return int64(Intn(math.MaxInt32)) }
func Int31() int32         { return int32(Intn(math.MaxInt32)) }
func Uint32() uint32       { return uint32(Intn(math.MaxInt32)) }
func Seed(int64)           {}
func Perm(n int) []int {
	p := make([]int, n)
	for i := range p {
		p[i] = i
	}
	return p
}
func Shuffle(n int, swap func(i, j int)) {}
