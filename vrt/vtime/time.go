// Package vtime stands in for package time on the virtual clock of the virtual runtime.
// Race-mode discipline: see package vrt.
package vtime

import (
	"time"

	"verif/vrt"
	"verif/vrt/vchan"
)

type (
	Time       = time.Time
	Duration   = time.Duration
	Month      = time.Month
	Weekday    = time.Weekday
	Location   = time.Location
	ParseError = time.ParseError
)

const (
	Nanosecond  = time.Nanosecond
	Microsecond = time.Microsecond
	Millisecond = time.Millisecond
	Second      = time.Second
	Minute      = time.Minute
	Hour        = time.Hour

	RFC3339     = time.RFC3339
	RFC3339Nano = time.RFC3339Nano
	RFC1123     = time.RFC1123
	Kitchen     = time.Kitchen
)

var (
	UTC   = time.UTC
	Local = time.Local
)

// epochSec is the real instant that virtual time 0 maps to (kept well after the zero Time so that
// IsZero, Before and After behave naturally).
const epochSec = 1_000_000_000

//go:norace
func Now() Time { return time.Unix(epochSec, vrt.Now()) }

//go:norace
func Since(t Time) Duration { return Now().Sub(t) }

//go:norace
func Until(t Time) Duration   { return t.Sub(Now()) }
func Unix(s, ns int64) Time   { return time.Unix(s, ns) }
func UnixMilli(ms int64) Time { return time.UnixMilli(ms) }
func UnixMicro(us int64) Time { return time.UnixMicro(us) }
func Date(y int, m Month, d, h, mi, s, ns int, loc *Location) Time {
	return time.Date(y, m, d, h, mi, s, ns, loc)
}
func ParseDuration(s string) (Duration, error)    { return time.ParseDuration(s) }
func Parse(layout, value string) (Time, error)    { return time.Parse(layout, value) }
func FixedZone(name string, off int) *Location    { return time.FixedZone(name, off) }
func LoadLocation(name string) (*Location, error) { return time.LoadLocation(name) }

// VirtualOf converts a virtual-clock reading (ns) to the Time Now() would return at that instant.
func VirtualOf(ns int64) Time { return time.Unix(epochSec, ns) }

type sleeper struct{ woke bool }

//go:norace
func (s *sleeper) Enabled() bool { return s.woke }

//go:norace
func (s *sleeper) FireTimer() { s.woke = true }

// Sleep parks the caller until the virtual clock has advanced by d.
//
//go:norace
func Sleep(d Duration) {
	if !vrt.Active() {
		if d > 0 {
			vrt.ManualClock += int64(d)
		}
		return
	}
	if d <= 0 {
		vrt.Yield()
		return
	}
	s := &sleeper{}
	vrt.AddTimer(int64(d), "sleep", s)
	vrt.Point("sleep", s)
}

// Timer mirrors time.Timer.
type Timer struct {
	C *vchan.Chan[Time]
	t *vrt.Timer
	f func()
}

// FireTimer implements vrt.Firer.
//
//go:norace
func (t *Timer) FireTimer() {
	if t.f != nil {
		vrt.Go(t.f)
		return
	}
	t.C.TrySend(Now())
}

//go:norace
func (t *Timer) arm(d Duration) {
	desc := "timer"
	if t.f != nil {
		desc = "afterfunc"
	}
	t.t = vrt.AddTimer(int64(d), desc, t)
}

// NewTimer is a visible operation (schedule point).
//
//go:norace
func NewTimer(d Duration) *Timer {
	vrt.Point("time.newtimer", nil)
	t := &Timer{C: vchan.Make[Time](1)}
	t.arm(d)
	return t
}

// AfterFunc runs f in its own thread after d.
//
//go:norace
func AfterFunc(d Duration, f func()) *Timer {
	vrt.Point("time.afterfunc", nil)
	t := &Timer{f: f}
	t.arm(d)
	return t
}

//go:norace
func After(d Duration) *vchan.Chan[Time] { return NewTimer(d).C }

//go:norace
func (t *Timer) Stop() bool {
	if vrt.Aborting() {
		return false
	}
	vrt.Point("timer.stop", nil, t)
	return vrt.StopTimer(t.t)
}

//go:norace
func (t *Timer) Reset(d Duration) bool {
	vrt.Point("timer.reset", nil, t)
	was := vrt.StopTimer(t.t)
	t.arm(d)
	return was
}

// Ticker mirrors time.Ticker.
type Ticker struct {
	C       *vchan.Chan[Time]
	d       Duration
	t       *vrt.Timer
	stopped bool
}

// FireTimer implements vrt.Firer.
//
//go:norace
func (k *Ticker) FireTimer() {
	k.C.TrySend(Now())
	if !k.stopped {
		k.arm()
	}
}

//go:norace
func (k *Ticker) arm() { k.t = vrt.AddTimer(int64(k.d), "ticker", k) }

//go:norace
func NewTicker(d Duration) *Ticker {
	if d <= 0 {
		panic("non-positive interval for NewTicker")
	}
	vrt.Point("time.newticker", nil)
	k := &Ticker{C: vchan.Make[Time](1), d: d}
	k.arm()
	return k
}

//go:norace
func Tick(d Duration) *vchan.Chan[Time] {
	if d <= 0 {
		return nil
	}
	return NewTicker(d).C
}

//go:norace
func (k *Ticker) Stop() {
	if vrt.Aborting() {
		return
	}
	vrt.Point("ticker.stop", nil, k)
	k.stopped = true
	vrt.StopTimer(k.t)
}

//go:norace
func (k *Ticker) Reset(d Duration) {
	vrt.Point("ticker.reset", nil, k)
	vrt.StopTimer(k.t)
	k.d = d
	k.stopped = false
	k.arm()
}
