package vrt

// Firer is the action of a timer; it runs in controller context. (An interface rather than a func:
// closures cannot be //go:norace.)
type Firer interface{ FireTimer() }

// FirerFunc adapts a closure (harness use only; not race-clean).
type FirerFunc func()

// FireTimer implements Firer.
func (f FirerFunc) FireTimer() { f() }

// Timer is a pending wake-up on the virtual clock.
type Timer struct {
	At     int64
	seq    int
	fire   Firer
	active bool
	Desc   string
	hid    uint64   // interleaving-independent identity
	ra     RaceAddr // creator -> expiry edge
}

// Now returns the virtual clock (ns since the virtual epoch). In pass-through mode a process-wide
// manual clock is used.
//
//go:norace
func Now() int64 {
	if S == nil {
		return ManualClock
	}
	if S.cfg.TickPerNow != 0 && !S.inCtl {
		S.clock += S.cfg.TickPerNow
	}
	return S.clock
}

// ManualClock is the clock of pass-through mode; harnesses set it directly.
var ManualClock int64

// AddTimer registers a wake-up d ns from now.
//
//go:norace
func AddTimer(d int64, desc string, fire Firer) *Timer {
	s := S
	if s == nil {
		panic(CapacityError("vrt.AddTimer outside scheduler (timers are not modelled in pass-through mode)"))
	}
	if d < 0 {
		d = 0
	}
	if len(s.timers) >= cap(s.timers) {
		panic(CapacityError("vrt: too many pending timers"))
	}
	s.timerSeq++
	t := &Timer{At: s.clock + d, seq: s.timerSeq, fire: fire, active: true, Desc: desc}
	if c := s.cur; c != nil && !s.inCtl {
		c.nev++
		t.hid = mix(mix(c.stable, c.nev), c.last)
	} else {
		t.hid = mix(s.global, uint64(len(s.timers))+77)
	}
	t.ra.Release()
	s.timers = append(s.timers, t) // within capacity
	return t
}

//go:norace
func (s *Sched) removeTimer(t *Timer) {
	n := len(s.timers)
	for i := 0; i < n; i++ {
		if s.timers[i] == t {
			for j := i; j+1 < n; j++ {
				s.timers[j] = s.timers[j+1]
			}
			s.timers[n-1] = nil
			s.timers = s.timers[:n-1]
			return
		}
	}
}

// StopTimer deactivates t; reports whether it was still pending.
//
//go:norace
func StopTimer(t *Timer) bool {
	s := S
	if s == nil || t == nil {
		return false
	}
	was := t.active
	t.active = false
	s.removeTimer(t)
	return was
}

// TimerActive reports whether t is still pending.
//
//go:norace
func TimerActive(t *Timer) bool { return t != nil && t.active }

//go:norace
func (s *Sched) timerPending() bool {
	if len(s.timers) == 0 {
		return false
	}
	if s.cfg.Horizon > 0 {
		for _, t := range s.timers {
			if t.At <= s.cfg.Horizon {
				return true
			}
		}
		return false
	}
	return true
}

// timerDue reports whether a pending timer's instant has already been reached.
//
//go:norace
func (s *Sched) timerDue() bool {
	for _, t := range s.timers {
		if t.At <= s.clock && (s.cfg.Horizon <= 0 || t.At <= s.cfg.Horizon) {
			return true
		}
	}
	return false
}

// fireEarliest advances the clock to the earliest pending timer and fires it; ties are ordered by
// the chooser.
//
//go:norace
func (s *Sched) fireEarliest() {
	min := int64(-1)
	for _, t := range s.timers {
		if s.cfg.Horizon > 0 && t.At > s.cfg.Horizon {
			continue
		}
		if min < 0 || t.At < min {
			min = t.At
		}
	}
	var cand [maxThreads]*Timer
	nc := 0
	for _, t := range s.timers {
		if t.At == min {
			cand[nc] = t
			nc++
		}
	}
	// canonical order: by interleaving-independent identity (insertion sort, no closures)
	for i := 1; i < nc; i++ {
		for j := i; j > 0 && cand[j].hid < cand[j-1].hid; j-- {
			cand[j], cand[j-1] = cand[j-1], cand[j]
		}
	}
	k := 0
	if nc > 1 {
		k = s.choose(KClock, nc, false, nil)
		if s.abandoned {
			return
		}
	}
	t := cand[k]
	s.removeTimer(t)
	t.active = false
	if min > s.clock {
		s.clock = min
	}
	if s.cfg.Trace {
		s.res.Trace = append(s.res.Trace, Step{Thread: -1, Label: "clock", Op: "fire " + t.Desc, Clock: s.clock})
	}
	s.globalEvent(t.hid)
	old := s.inCtl
	s.inCtl = true
	t.ra.Acquire()
	t.fire.FireTimer()
	s.inCtl = old
	s.globalEvent(3)
}

// PendingTimers returns the number of pending timers.
//
//go:norace
func (s *Sched) PendingTimers() int { return len(s.timers) }
