package vrt

import "sort"

// Timer is a pending wake-up on the virtual clock. Fire runs in controller context.
type Timer struct {
	At     int64
	seq    int
	Fire   func()
	active bool
	Desc   string
	hid    uint64 // interleaving-independent identity
}

// Now returns the virtual clock (ns since the virtual epoch). In pass-through mode a process-wide
// manual clock is used.
func Now() int64 {
	if S == nil {
		return ManualClock
	}
	if S.cfg.TickPerNow != 0 && !S.inCtl {
		S.clock += S.cfg.TickPerNow
	}
	return S.clock
}

// ManualClock is the clock of pass-through mode; harnesses set it directly.
var ManualClock int64

// AddTimer registers a wake-up d ns from now.
func AddTimer(d int64, desc string, fire func()) *Timer {
	s := S
	if s == nil {
		panic("vrt.AddTimer outside scheduler")
	}
	if d < 0 {
		d = 0
	}
	s.timerSeq++
	t := &Timer{At: s.clock + d, seq: s.timerSeq, Fire: fire, active: true, Desc: desc}
	if c := s.cur; c != nil && !s.inCtl {
		c.nev++
		t.hid = mix(mix(c.stable, c.nev), c.last)
	} else {
		t.hid = mix(s.global, uint64(len(s.timers))+77)
	}
	s.timers = append(s.timers, t)
	return t
}

// StopTimer deactivates t; reports whether it was still pending.
func StopTimer(t *Timer) bool {
	s := S
	if s == nil || t == nil {
		return false
	}
	was := t.active
	t.active = false
	for i, x := range s.timers {
		if x == t {
			s.timers = append(s.timers[:i], s.timers[i+1:]...)
			break
		}
	}
	return was
}

// TimerActive reports whether t is still pending.
func TimerActive(t *Timer) bool { return t != nil && t.active }

func (s *Sched) timerPending() bool {
	if len(s.timers) == 0 {
		return false
	}
	if s.cfg.Horizon > 0 {
		for _, t := range s.timers {
			if t.At <= s.cfg.Horizon {
				return true
			}
		}
		return false
	}
	return true
}

// fireEarliest advances the clock to the earliest pending timer and fires it; ties are ordered by
// the chooser.
func (s *Sched) fireEarliest() {
	min := int64(-1)
	for _, t := range s.timers {
		if s.cfg.Horizon > 0 && t.At > s.cfg.Horizon {
			continue
		}
		if min < 0 || t.At < min {
			min = t.At
		}
	}
	var cand []*Timer
	for _, t := range s.timers {
		if t.At == min {
			cand = append(cand, t)
		}
	}
	// canonical order: by interleaving-independent identity
	sort.Slice(cand, func(i, j int) bool { return cand[i].hid < cand[j].hid })
	k := 0
	if len(cand) > 1 {
		k = s.choose(KClock, len(cand), false, nil)
		if s.abandoned {
			return
		}
	}
	t := cand[k]
	for i, x := range s.timers {
		if x == t {
			s.timers = append(s.timers[:i], s.timers[i+1:]...)
			break
		}
	}
	t.active = false
	if min > s.clock {
		s.clock = min
	}
	if s.cfg.Trace {
		s.res.Trace = append(s.res.Trace, Step{Thread: -1, Label: "clock", Op: "fire " + t.Desc, Clock: s.clock})
	}
	s.globalEvent(t.hid)
	s.ctl(t.Fire)
	s.globalEvent(3)
}

// PendingTimers returns the number of pending timers.
func (s *Sched) PendingTimers() int { return len(s.timers) }
