// Package vatomic stands in for sync/atomic: every operation is a schedule point followed by the
// real atomic operation.
package vatomic

import (
	"sync/atomic"
	"unsafe"

	"verif/vrt"
)

//go:norace
func p(op string, obj any) { vrt.Point(op, nil, obj) }

func AddInt32(addr *int32, delta int32) int32 {
	p("atomic.add", addr)
	return atomic.AddInt32(addr, delta)
}
func AddInt64(addr *int64, delta int64) int64 {
	p("atomic.add", addr)
	return atomic.AddInt64(addr, delta)
}
func AddUint32(addr *uint32, delta uint32) uint32 {
	p("atomic.add", addr)
	return atomic.AddUint32(addr, delta)
}
func AddUint64(addr *uint64, delta uint64) uint64 {
	p("atomic.add", addr)
	return atomic.AddUint64(addr, delta)
}
func AddUintptr(addr *uintptr, d uintptr) uintptr {
	p("atomic.add", addr)
	return atomic.AddUintptr(addr, d)
}
func LoadInt32(addr *int32) int32       { p("atomic.load", addr); return atomic.LoadInt32(addr) }
func LoadInt64(addr *int64) int64       { p("atomic.load", addr); return atomic.LoadInt64(addr) }
func LoadUint32(addr *uint32) uint32    { p("atomic.load", addr); return atomic.LoadUint32(addr) }
func LoadUint64(addr *uint64) uint64    { p("atomic.load", addr); return atomic.LoadUint64(addr) }
func LoadUintptr(addr *uintptr) uintptr { p("atomic.load", addr); return atomic.LoadUintptr(addr) }
func LoadPointer(addr *unsafe.Pointer) unsafe.Pointer {
	p("atomic.load", addr)
	return atomic.LoadPointer(addr)
}
func StoreInt32(addr *int32, v int32)       { p("atomic.store", addr); atomic.StoreInt32(addr, v) }
func StoreInt64(addr *int64, v int64)       { p("atomic.store", addr); atomic.StoreInt64(addr, v) }
func StoreUint32(addr *uint32, v uint32)    { p("atomic.store", addr); atomic.StoreUint32(addr, v) }
func StoreUint64(addr *uint64, v uint64)    { p("atomic.store", addr); atomic.StoreUint64(addr, v) }
func StoreUintptr(addr *uintptr, v uintptr) { p("atomic.store", addr); atomic.StoreUintptr(addr, v) }
func StorePointer(addr *unsafe.Pointer, v unsafe.Pointer) {
	p("atomic.store", addr)
	atomic.StorePointer(addr, v)
}
func SwapInt32(addr *int32, v int32) int32 { p("atomic.swap", addr); return atomic.SwapInt32(addr, v) }
func SwapInt64(addr *int64, v int64) int64 { p("atomic.swap", addr); return atomic.SwapInt64(addr, v) }
func SwapUint32(addr *uint32, v uint32) uint32 {
	p("atomic.swap", addr)
	return atomic.SwapUint32(addr, v)
}
func SwapUint64(addr *uint64, v uint64) uint64 {
	p("atomic.swap", addr)
	return atomic.SwapUint64(addr, v)
}
func CompareAndSwapInt32(addr *int32, o, n int32) bool {
	p("atomic.cas", addr)
	return atomic.CompareAndSwapInt32(addr, o, n)
}
func CompareAndSwapInt64(addr *int64, o, n int64) bool {
	p("atomic.cas", addr)
	return atomic.CompareAndSwapInt64(addr, o, n)
}
func CompareAndSwapUint32(addr *uint32, o, n uint32) bool {
	p("atomic.cas", addr)
	return atomic.CompareAndSwapUint32(addr, o, n)
}
func CompareAndSwapUint64(addr *uint64, o, n uint64) bool {
	p("atomic.cas", addr)
	return atomic.CompareAndSwapUint64(addr, o, n)
}
func CompareAndSwapPointer(addr *unsafe.Pointer, o, n unsafe.Pointer) bool {
	p("atomic.cas", addr)
	return atomic.CompareAndSwapPointer(addr, o, n)
}

type Int32 struct{ v atomic.Int32 }

func (x *Int32) Load() int32                    { p("atomic.load", x); return x.v.Load() }
func (x *Int32) Store(v int32)                  { p("atomic.store", x); x.v.Store(v) }
func (x *Int32) Add(d int32) int32              { p("atomic.add", x); return x.v.Add(d) }
func (x *Int32) Swap(v int32) int32             { p("atomic.swap", x); return x.v.Swap(v) }
func (x *Int32) CompareAndSwap(o, n int32) bool { p("atomic.cas", x); return x.v.CompareAndSwap(o, n) }

type Int64 struct{ v atomic.Int64 }

func (x *Int64) Load() int64                    { p("atomic.load", x); return x.v.Load() }
func (x *Int64) Store(v int64)                  { p("atomic.store", x); x.v.Store(v) }
func (x *Int64) Add(d int64) int64              { p("atomic.add", x); return x.v.Add(d) }
func (x *Int64) Swap(v int64) int64             { p("atomic.swap", x); return x.v.Swap(v) }
func (x *Int64) CompareAndSwap(o, n int64) bool { p("atomic.cas", x); return x.v.CompareAndSwap(o, n) }

type Uint32 struct{ v atomic.Uint32 }

func (x *Uint32) Load() uint32         { p("atomic.load", x); return x.v.Load() }
func (x *Uint32) Store(v uint32)       { p("atomic.store", x); x.v.Store(v) }
func (x *Uint32) Add(d uint32) uint32  { p("atomic.add", x); return x.v.Add(d) }
func (x *Uint32) Swap(v uint32) uint32 { p("atomic.swap", x); return x.v.Swap(v) }
func (x *Uint32) CompareAndSwap(o, n uint32) bool {
	p("atomic.cas", x)
	return x.v.CompareAndSwap(o, n)
}

type Uint64 struct{ v atomic.Uint64 }

func (x *Uint64) Load() uint64         { p("atomic.load", x); return x.v.Load() }
func (x *Uint64) Store(v uint64)       { p("atomic.store", x); x.v.Store(v) }
func (x *Uint64) Add(d uint64) uint64  { p("atomic.add", x); return x.v.Add(d) }
func (x *Uint64) Swap(v uint64) uint64 { p("atomic.swap", x); return x.v.Swap(v) }
func (x *Uint64) CompareAndSwap(o, n uint64) bool {
	p("atomic.cas", x)
	return x.v.CompareAndSwap(o, n)
}

type Bool struct{ v atomic.Bool }

func (x *Bool) Load() bool                    { p("atomic.load", x); return x.v.Load() }
func (x *Bool) Store(v bool)                  { p("atomic.store", x); x.v.Store(v) }
func (x *Bool) Swap(v bool) bool              { p("atomic.swap", x); return x.v.Swap(v) }
func (x *Bool) CompareAndSwap(o, n bool) bool { p("atomic.cas", x); return x.v.CompareAndSwap(o, n) }

type Value struct{ v atomic.Value }

func (x *Value) Load() any                    { p("atomic.load", x); return x.v.Load() }
func (x *Value) Store(v any)                  { p("atomic.store", x); x.v.Store(v) }
func (x *Value) Swap(v any) any               { p("atomic.swap", x); return x.v.Swap(v) }
func (x *Value) CompareAndSwap(o, n any) bool { p("atomic.cas", x); return x.v.CompareAndSwap(o, n) }

type Pointer[T any] struct{ v atomic.Pointer[T] }

func (x *Pointer[T]) Load() *T     { p("atomic.load", x); return x.v.Load() }
func (x *Pointer[T]) Store(v *T)   { p("atomic.store", x); x.v.Store(v) }
func (x *Pointer[T]) Swap(v *T) *T { p("atomic.swap", x); return x.v.Swap(v) }
func (x *Pointer[T]) CompareAndSwap(o, n *T) bool {
	p("atomic.cas", x)
	return x.v.CompareAndSwap(o, n)
}
