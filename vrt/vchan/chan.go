// Package vchan models Go channels under the virtual runtime with the runtime's two-phase
// semantics: an operation that finds no ready counterpart registers as a waiter and parks; a later
// counterpart completes the exchange directly. A non-blocking send therefore succeeds only if a
// receiver has already parked on the channel (or buffer space exists).
package vchan

import (
	"verif/vrt"
)

// selState is shared by the waiter entries of one blocked select.
type selState struct {
	done        bool
	idx         int
	closedPanic bool
}

func (s *selState) ready() bool { return s.done }

type waiter[T any] struct {
	sel *selState
	idx int
	rc  *RecvCase[T]
	val T // for senders
}

// Chan is the model of chan T. A nil *Chan[T] behaves like a nil channel.
type Chan[T any] struct {
	capacity int
	buf      []T
	closed   bool
	recvq    []*waiter[T]
	sendq    []*waiter[T]
	ra       vrt.RaceAddr
}

// Make mirrors make(chan T, n).
func Make[T any](n ...int) *Chan[T] {
	c := &Chan[T]{}
	if len(n) > 0 {
		c.capacity = n[0]
	}
	return c
}

func (c *Chan[T]) liveRecv() *waiter[T] {
	for len(c.recvq) > 0 {
		w := c.recvq[0]
		if w.sel.done {
			c.recvq = c.recvq[1:]
			continue
		}
		return w
	}
	return nil
}

func (c *Chan[T]) liveSend() *waiter[T] {
	for len(c.sendq) > 0 {
		w := c.sendq[0]
		if w.sel.done {
			c.sendq = c.sendq[1:]
			continue
		}
		return w
	}
	return nil
}

// Case is one arm of a select.
type Case interface {
	isNil() bool
	ready() bool
	fire()
	enqueue(sel *selState, idx int)
	dequeue(sel *selState)
	isSend() bool
	nRecv() int
	obj() any
}

// RecvCase is a receive arm; after Select returns its index, V and OK hold the result.
type RecvCase[T any] struct {
	c  *Chan[T]
	V  T
	OK bool
}

// R builds a receive arm.
func R[T any](c *Chan[T]) *RecvCase[T] { return &RecvCase[T]{c: c} }

func (r *RecvCase[T]) isNil() bool  { return r.c == nil }
func (r *RecvCase[T]) isSend() bool { return false }
func (r *RecvCase[T]) nRecv() int   { return 0 }
func (r *RecvCase[T]) obj() any {
	if r.c == nil {
		return nil
	}
	return r.c
}

func (r *RecvCase[T]) ready() bool {
	c := r.c
	return len(c.buf) > 0 || c.closed || c.liveSend() != nil
}

func (r *RecvCase[T]) fire() {
	c := r.c
	if len(c.buf) > 0 {
		r.V, r.OK = c.buf[0], true
		c.buf = c.buf[1:]
		if w := c.liveSend(); w != nil { // a blocked sender moves into the freed slot
			c.sendq = c.sendq[1:]
			c.buf = append(c.buf, w.val)
			w.sel.done, w.sel.idx = true, w.idx
		}
		c.ra.Acquire()
		return
	}
	if w := c.liveSend(); w != nil {
		c.sendq = c.sendq[1:]
		r.V, r.OK = w.val, true
		w.sel.done, w.sel.idx = true, w.idx
		c.ra.Acquire()
		return
	}
	// closed
	var zero T
	r.V, r.OK = zero, false
	c.ra.Acquire()
}

func (r *RecvCase[T]) enqueue(sel *selState, idx int) {
	r.c.recvq = append(r.c.recvq, &waiter[T]{sel: sel, idx: idx, rc: r})
}

func (r *RecvCase[T]) dequeue(sel *selState) {
	q := r.c.recvq[:0]
	for _, w := range r.c.recvq {
		if w.sel != sel {
			q = append(q, w)
		}
	}
	r.c.recvq = q
	if sel.done {
		r.c.ra.Acquire()
	}
}

// SendCase is a send arm.
type SendCase[T any] struct {
	c *Chan[T]
	v T
}

// S builds a send arm.
func S[T any](c *Chan[T], v T) *SendCase[T] { return &SendCase[T]{c: c, v: v} }

func (s *SendCase[T]) isNil() bool  { return s.c == nil }
func (s *SendCase[T]) isSend() bool { return true }
func (s *SendCase[T]) obj() any {
	if s.c == nil {
		return nil
	}
	return s.c
}
func (s *SendCase[T]) nRecv() int {
	if s.c == nil {
		return 0
	}
	return s.c.Receivers()
}

func (s *SendCase[T]) ready() bool {
	c := s.c
	return c.closed || c.liveRecv() != nil || len(c.buf) < c.capacity
}

func (s *SendCase[T]) fire() {
	c := s.c
	if c.closed {
		panic("send on closed channel")
	}
	c.ra.Release()
	if w := c.liveRecv(); w != nil {
		c.recvq = c.recvq[1:]
		w.rc.V, w.rc.OK = s.v, true
		w.sel.done, w.sel.idx = true, w.idx
		return
	}
	c.buf = append(c.buf, s.v)
}

func (s *SendCase[T]) enqueue(sel *selState, idx int) {
	s.c.sendq = append(s.c.sendq, &waiter[T]{sel: sel, idx: idx, val: s.v})
}

func (s *SendCase[T]) dequeue(sel *selState) {
	q := s.c.sendq[:0]
	for _, w := range s.c.sendq {
		if w.sel != sel {
			q = append(q, w)
		}
	}
	s.c.sendq = q
}

// Select mirrors the select statement. It returns the index of the arm that fired, or -1 when
// hasDefault is set and no arm was ready.
func objsOf(cases []Case) []any {
	o := make([]any, 0, len(cases))
	for _, c := range cases {
		if x := c.obj(); x != nil {
			o = append(o, x)
		}
	}
	return o
}

func Select(hasDefault bool, cases ...Case) int {
	vrt.Point("select", nil, objsOf(cases)...)
	if hasDefault && len(cases) == 1 && cases[0].isSend() {
		// non-blocking send (hand-off idiom): log how many receivers were parked and the outcome
		n := cases[0].nRecv()
		k := selectNoPoint(hasDefault, cases)
		vrt.LogEvent("trysend", "", n, k)
		return k
	}
	return selectNoPoint(hasDefault, cases)
}

func selectNoPoint(hasDefault bool, cases []Case) int {
	var readyIdx [8]int
	rd := readyIdx[:0]
	for i, c := range cases {
		if !c.isNil() && c.ready() {
			rd = append(rd, i)
		}
	}
	if len(rd) > 0 {
		k := rd[vrt.ChooseSelect(len(rd))]
		cases[k].fire()
		return k
	}
	if hasDefault {
		return -1
	}
	sel := &selState{}
	for i, c := range cases {
		if !c.isNil() {
			c.enqueue(sel, i)
		}
	}
	vrt.Point("chan.blocked", sel.ready, objsOf(cases)...)
	for _, c := range cases {
		if !c.isNil() {
			c.dequeue(sel)
		}
	}
	if sel.closedPanic {
		panic("send on closed channel")
	}
	return sel.idx
}

// Send mirrors ch <- v.
func (c *Chan[T]) Send(v T) {
	vrt.Point("chan.send", nil, chanObj(c))
	selectNoPoint(false, []Case{S(c, v)})
}

// Recv mirrors <-ch.
func (c *Chan[T]) Recv() T {
	vrt.Point("chan.recv", nil, chanObj(c))
	r := R(c)
	selectNoPoint(false, []Case{r})
	return r.V
}

// Recv2 mirrors v, ok := <-ch.
func (c *Chan[T]) Recv2() (T, bool) {
	vrt.Point("chan.recv", nil, chanObj(c))
	r := R(c)
	selectNoPoint(false, []Case{r})
	return r.V, r.OK
}

func chanObj[T any](c *Chan[T]) any {
	if c == nil {
		return nil
	}
	return c
}

// TrySend is the controller-context non-blocking send used by timers (no schedule point).
func (c *Chan[T]) TrySend(v T) bool {
	s := S(c, v)
	if c.closed || !s.ready() {
		return false
	}
	s.fire()
	vrt.Touch(c)
	return true
}

// Close mirrors close(ch).
func Close[T any](c *Chan[T]) {
	vrt.Point("chan.close", nil, chanObj(c))
	c.CloseNoPoint()
}

// CloseNoPoint closes without a schedule point (used by vctx cancellation, which has its own).
func (c *Chan[T]) CloseNoPoint() {
	if c == nil {
		panic("close of nil channel")
	}
	if c.closed {
		panic("close of closed channel")
	}
	c.closed = true
	vrt.Touch(c)
	c.ra.Release()
	for _, w := range c.recvq {
		if !w.sel.done {
			var zero T
			w.rc.V, w.rc.OK = zero, false
			w.sel.done, w.sel.idx = true, w.idx
		}
	}
	c.recvq = nil
	for _, w := range c.sendq {
		if !w.sel.done {
			w.sel.done, w.sel.idx, w.sel.closedPanic = true, w.idx, true
		}
	}
	c.sendq = nil
}

// Closed reports whether the channel is closed (oracles).
func (c *Chan[T]) Closed() bool { return c != nil && c.closed }

// Len mirrors len(ch).
func (c *Chan[T]) Len() int {
	if c == nil {
		return 0
	}
	return len(c.buf)
}

// Cap mirrors cap(ch).
func (c *Chan[T]) Cap() int {
	if c == nil {
		return 0
	}
	return c.capacity
}

// Receivers returns the number of parked receivers (oracles / signatures).
func (c *Chan[T]) Receivers() int {
	n := 0
	for _, w := range c.recvq {
		if !w.sel.done {
			n++
		}
	}
	return n
}
