// Package vchan models Go channels under the virtual runtime with the runtime's two-phase
// semantics: an operation that finds no ready counterpart registers as a waiter and parks; a later
// counterpart completes the exchange directly. A non-blocking send therefore succeeds only if a
// receiver has already parked on the channel (or buffer space exists).
//
// Race-mode discipline: see package vrt (//go:norace, no closures, no growth of shared slices).
package vchan

import (
	"verif/vrt"
)

// selState is shared by the waiter entries of one blocked select.
type selState struct {
	done        bool
	idx         int
	closedPanic bool
}

//go:norace
func (s *selState) Enabled() bool { return s.done }

type waiter[T any] struct {
	sel *selState
	idx int
	rc  *RecvCase[T]
	val T // for senders
}

const maxQ = 32

// queue is a fixed-capacity FIFO (no growth, no copy()).
type queue[E any] struct {
	a [maxQ]E
	n int
}

//go:norace
func (q *queue[E]) push(e E) {
	if q.n >= maxQ {
		panic(vrt.CapacityError("vchan: queue overflow"))
	}
	q.a[q.n] = e
	q.n++
}

//go:norace
func (q *queue[E]) popFront() {
	var zero E
	for i := 0; i+1 < q.n; i++ {
		q.a[i] = q.a[i+1]
	}
	q.n--
	q.a[q.n] = zero
}

//go:norace
func (q *queue[E]) removeAt(i int) {
	var zero E
	for j := i; j+1 < q.n; j++ {
		q.a[j] = q.a[j+1]
	}
	q.n--
	q.a[q.n] = zero
}

//go:norace
func (q *queue[E]) clear() {
	var zero E
	for i := 0; i < q.n; i++ {
		q.a[i] = zero
	}
	q.n = 0
}

// Chan is the model of chan T. A nil *Chan[T] behaves like a nil channel.
type Chan[T any] struct {
	capacity int
	buf      queue[T]
	closed   bool
	recvq    queue[*waiter[T]]
	sendq    queue[*waiter[T]]
	ra       vrt.RaceAddr
}

// Make mirrors make(chan T, n).
//
//go:norace
func Make[T any](n ...int) *Chan[T] {
	c := &Chan[T]{}
	if len(n) > 0 {
		c.capacity = n[0]
		if c.capacity > maxQ {
			panic(vrt.CapacityError("vchan: buffer capacity above the model's maximum"))
		}
	}
	return c
}

//go:norace
func (c *Chan[T]) liveRecv() *waiter[T] {
	for c.recvq.n > 0 {
		w := c.recvq.a[0]
		if w.sel.done {
			c.recvq.popFront()
			continue
		}
		return w
	}
	return nil
}

//go:norace
func (c *Chan[T]) liveSend() *waiter[T] {
	for c.sendq.n > 0 {
		w := c.sendq.a[0]
		if w.sel.done {
			c.sendq.popFront()
			continue
		}
		return w
	}
	return nil
}

// Case is one arm of a select.
type Case interface {
	isNil() bool
	ready() bool
	fire()
	enqueue(sel *selState, idx int)
	dequeue(sel *selState)
	isSend() bool
	nRecv() int
	obj() any
}

// RecvCase is a receive arm; after Select returns its index, V and OK hold the result.
type RecvCase[T any] struct {
	c  *Chan[T]
	V  T
	OK bool
}

// R builds a receive arm.
//
//go:norace
func R[T any](c *Chan[T]) *RecvCase[T] { return &RecvCase[T]{c: c} }

//go:norace
func (r *RecvCase[T]) isNil() bool { return r.c == nil }

//go:norace
func (r *RecvCase[T]) isSend() bool { return false }

//go:norace
func (r *RecvCase[T]) nRecv() int { return 0 }

//go:norace
func (r *RecvCase[T]) obj() any {
	if r.c == nil {
		return nil
	}
	return r.c
}

//go:norace
func (r *RecvCase[T]) ready() bool {
	c := r.c
	return c.buf.n > 0 || c.closed || c.liveSend() != nil
}

//go:norace
func (r *RecvCase[T]) fire() {
	c := r.c
	if c.buf.n > 0 {
		r.V, r.OK = c.buf.a[0], true
		c.buf.popFront()
		if w := c.liveSend(); w != nil { // a blocked sender moves into the freed slot
			c.sendq.popFront()
			c.buf.push(w.val)
			w.sel.done, w.sel.idx = true, w.idx
		}
		c.ra.Acquire()
		return
	}
	if w := c.liveSend(); w != nil {
		c.sendq.popFront()
		r.V, r.OK = w.val, true
		w.sel.done, w.sel.idx = true, w.idx
		c.ra.Acquire()
		return
	}
	// closed
	var zero T
	r.V, r.OK = zero, false
	c.ra.Acquire()
}

//go:norace
func (r *RecvCase[T]) enqueue(sel *selState, idx int) {
	r.c.recvq.push(&waiter[T]{sel: sel, idx: idx, rc: r})
}

//go:norace
func (r *RecvCase[T]) dequeue(sel *selState) {
	q := &r.c.recvq
	for i := 0; i < q.n; {
		if q.a[i].sel == sel {
			q.removeAt(i)
			continue
		}
		i++
	}
	if sel.done {
		r.c.ra.Acquire()
	}
}

// SendCase is a send arm.
type SendCase[T any] struct {
	c *Chan[T]
	v T
}

// S builds a send arm.
//
//go:norace
func S[T any](c *Chan[T], v T) *SendCase[T] { return &SendCase[T]{c: c, v: v} }

//go:norace
func (s *SendCase[T]) isNil() bool { return s.c == nil }

//go:norace
func (s *SendCase[T]) isSend() bool { return true }

//go:norace
func (s *SendCase[T]) obj() any {
	if s.c == nil {
		return nil
	}
	return s.c
}

//go:norace
func (s *SendCase[T]) nRecv() int {
	if s.c == nil {
		return 0
	}
	return s.c.Receivers()
}

//go:norace
func (s *SendCase[T]) ready() bool {
	c := s.c
	return c.closed || c.liveRecv() != nil || c.buf.n < c.capacity
}

//go:norace
func (s *SendCase[T]) fire() {
	c := s.c
	if c.closed {
		panic("send on closed channel")
	}
	c.ra.Release()
	if w := c.liveRecv(); w != nil {
		c.recvq.popFront()
		w.rc.V, w.rc.OK = s.v, true
		w.sel.done, w.sel.idx = true, w.idx
		return
	}
	c.buf.push(s.v)
}

//go:norace
func (s *SendCase[T]) enqueue(sel *selState, idx int) {
	s.c.sendq.push(&waiter[T]{sel: sel, idx: idx, val: s.v})
}

//go:norace
func (s *SendCase[T]) dequeue(sel *selState) {
	q := &s.c.sendq
	for i := 0; i < q.n; {
		if q.a[i].sel == sel {
			q.removeAt(i)
			continue
		}
		i++
	}
}

//go:norace
func objsOf(cases []Case) []any {
	o := make([]any, 0, len(cases))
	for _, c := range cases {
		if x := c.obj(); x != nil {
			o = append(o, x)
		}
	}
	return o
}

// Select mirrors the select statement. It returns the index of the arm that fired, or -1 when
// hasDefault is set and no arm was ready.
//
//go:norace
func Select(hasDefault bool, cases ...Case) int {
	vrt.Point("select", nil, objsOf(cases)...)
	if hasDefault && len(cases) == 1 && cases[0].isSend() && vrt.EventsOn() {
		// non-blocking send (hand-off idiom): log how many receivers were parked and the outcome
		n := cases[0].nRecv()
		k := selectNoPoint(hasDefault, cases)
		vrt.LogEvent("trysend", "", n, k)
		return k
	}
	return selectNoPoint(hasDefault, cases)
}

//go:norace
func selectNoPoint(hasDefault bool, cases []Case) int {
	var rd [16]int
	nr := 0
	for i, c := range cases {
		if !c.isNil() && c.ready() && nr < len(rd) {
			rd[nr] = i
			nr++
		}
	}
	if nr > 0 {
		k := rd[vrt.ChooseSelect(nr)]
		cases[k].fire()
		return k
	}
	if hasDefault {
		return -1
	}
	sel := &selState{}
	for i, c := range cases {
		if !c.isNil() {
			c.enqueue(sel, i)
		}
	}
	vrt.Point("chan.blocked", sel, objsOf(cases)...)
	for _, c := range cases {
		if !c.isNil() {
			c.dequeue(sel)
		}
	}
	if sel.closedPanic {
		panic("send on closed channel")
	}
	return sel.idx
}

//go:norace
func chanObj[T any](c *Chan[T]) any {
	if c == nil {
		return nil
	}
	return c
}

// Send mirrors ch <- v.
//
//go:norace
func (c *Chan[T]) Send(v T) {
	vrt.Point("chan.send", nil, chanObj(c))
	var cs [1]Case
	cs[0] = S(c, v)
	selectNoPoint(false, cs[:])
}

// Recv mirrors <-ch.
//
//go:norace
func (c *Chan[T]) Recv() T {
	vrt.Point("chan.recv", nil, chanObj(c))
	r := R(c)
	var cs [1]Case
	cs[0] = r
	selectNoPoint(false, cs[:])
	return r.V
}

// Recv2 mirrors v, ok := <-ch.
//
//go:norace
func (c *Chan[T]) Recv2() (T, bool) {
	vrt.Point("chan.recv", nil, chanObj(c))
	r := R(c)
	var cs [1]Case
	cs[0] = r
	selectNoPoint(false, cs[:])
	return r.V, r.OK
}

// TrySend is the controller-context non-blocking send used by timers (no schedule point).
//
//go:norace
func (c *Chan[T]) TrySend(v T) bool {
	s := S(c, v)
	if c.closed || !s.ready() {
		return false
	}
	s.fire()
	vrt.Touch(c)
	return true
}

// Close mirrors close(ch).
//
//go:norace
func Close[T any](c *Chan[T]) {
	vrt.Point("chan.close", nil, chanObj(c))
	c.CloseNoPoint()
}

// CloseNoPoint closes without a schedule point (used by vctx cancellation, which has its own).
//
//go:norace
func (c *Chan[T]) CloseNoPoint() {
	if c == nil {
		panic("close of nil channel")
	}
	if c.closed {
		panic("close of closed channel")
	}
	c.closed = true
	vrt.Touch(c)
	c.ra.Release()
	for i := 0; i < c.recvq.n; i++ {
		w := c.recvq.a[i]
		if !w.sel.done {
			var zero T
			w.rc.V, w.rc.OK = zero, false
			w.sel.done, w.sel.idx = true, w.idx
		}
	}
	c.recvq.clear()
	for i := 0; i < c.sendq.n; i++ {
		w := c.sendq.a[i]
		if !w.sel.done {
			w.sel.done, w.sel.idx, w.sel.closedPanic = true, w.idx, true
		}
	}
	c.sendq.clear()
}

// Closed reports whether the channel is closed (oracles).
//
//go:norace
func (c *Chan[T]) Closed() bool { return c != nil && c.closed }

// Len mirrors len(ch).
//
//go:norace
func (c *Chan[T]) Len() int {
	if c == nil {
		return 0
	}
	return c.buf.n
}

// Cap mirrors cap(ch).
//
//go:norace
func (c *Chan[T]) Cap() int {
	if c == nil {
		return 0
	}
	return c.capacity
}

// Receivers returns the number of parked receivers (oracles / signatures).
//
//go:norace
func (c *Chan[T]) Receivers() int {
	n := 0
	for i := 0; i < c.recvq.n; i++ {
		if !c.recvq.a[i].sel.done {
			n++
		}
	}
	return n
}
