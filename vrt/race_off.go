//go:build !race

package vrt

// RaceMode reports whether the binary was built with the race detector.
const RaceMode = false

func raceHandoffOut() {}
func raceHandoffIn()  {}

// RaceAddr carries the happens-before edges of a modelled synchronisation object to the race
// detector; without -race it is empty.
type RaceAddr struct{}

func (*RaceAddr) Acquire() {}
func (*RaceAddr) Release() {}
