// Package vmap makes map iteration deterministic under the virtual runtime. Go randomises the
// iteration order of maps; when the loop body contains schedule points (a lock per partition, a
// gauge supplier that reads a limit) that order decides which operations a thread performs next,
// and an execution could not be replayed from its choice list. The rewriter therefore turns every
// `for k, v := range m` over a map with an ordered key type into an iteration over SortedKeys(m).
//
// Unlike the rest of vrt these functions are NOT //go:norace: they read the program's own map, and
// in race mode that read must stay visible to the detector.
package vmap

import (
	"cmp"
	"sort"

	"verif/vrt"
)

// SortedKeys returns the keys of m in the iteration order of this execution. The order is an
// environment answer: ascending by default, every other permutation (every rotation for more than
// four keys) is an alternative that costs one deviation — so a check that sets a deviation bound
// above zero explores other iteration orders too, and every execution replays exactly.
func SortedKeys[M ~map[K]V, K cmp.Ordered, V any](m M) []K {
	keys := make([]K, 0, len(m))
	for k := range m {
		keys = append(keys, k)
	}
	sort.Slice(keys, func(i, j int) bool { return keys[i] < keys[j] })
	n := len(keys)
	if n < 2 {
		return keys
	}
	if n > 4 {
		r := vrt.EnvChoose(n)
		return append(append([]K{}, keys[r:]...), keys[:r]...)
	}
	f := 1
	for i := 2; i <= n; i++ {
		f *= i
	}
	p := vrt.EnvChoose(f)
	// the p-th permutation in lexicographic order (factorial number system)
	rest := append([]K{}, keys...)
	out := make([]K, 0, n)
	for i := n; i >= 1; i-- {
		f /= i
		j := p / f
		p %= f
		out = append(out, rest[j])
		rest = append(rest[:j], rest[j+1:]...)
	}
	return out
}
