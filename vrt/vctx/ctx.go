// Package vctx stands in for package context. Done channels are model channels; cancellation and
// Err are schedule points; deadlines run on the virtual clock. Race-mode discipline: see package vrt.
package vctx

import (
	"context"
	"time"

	"verif/vrt"
	"verif/vrt/vchan"
	"verif/vrt/vtime"
)

// Context mirrors context.Context with a model Done channel.
type Context interface {
	Deadline() (deadline time.Time, ok bool)
	Done() *vchan.Chan[struct{}]
	Err() error
	Value(key any) any
}

var (
	Canceled         = context.Canceled
	DeadlineExceeded = context.DeadlineExceeded
)

type CancelFunc func()
type CancelCauseFunc func(cause error)

type emptyCtx struct{ name string }

func (emptyCtx) Deadline() (time.Time, bool) { return time.Time{}, false }
func (emptyCtx) Done() *vchan.Chan[struct{}] { return nil }
func (emptyCtx) Err() error                  { return nil }
func (emptyCtx) Value(key any) any           { return nil }
func (e emptyCtx) String() string            { return e.name }

var (
	background = emptyCtx{"context.Background"}
	todo       = emptyCtx{"context.TODO"}
)

func Background() Context { return background }
func TODO() Context       { return todo }

const maxChildren = 16

type cancelCtx struct {
	parent   Context
	done     *vchan.Chan[struct{}]
	err      error
	cause    error
	children [maxChildren]*cancelCtx
	nch      int
	deadline time.Time
	hasDl    bool
	timer    *vrt.Timer
	after    [4]func()
	nafter   int
}

//go:norace
func (c *cancelCtx) Deadline() (time.Time, bool) {
	if c.hasDl {
		return c.deadline, true
	}
	return c.parent.Deadline()
}

//go:norace
func (c *cancelCtx) Done() *vchan.Chan[struct{}] { return c.done }

//go:norace
func (c *cancelCtx) Err() error {
	vrt.Point("ctx.err", nil, c)
	return c.err
}

//go:norace
func (c *cancelCtx) Value(key any) any { return c.parent.Value(key) }
func (c *cancelCtx) String() string    { return "vctx.cancelCtx" }

// FireTimer implements vrt.Firer (deadline expiry).
//
//go:norace
func (c *cancelCtx) FireTimer() { c.cancel(DeadlineExceeded, nil) }

// Cancelled reports the state without a schedule point (oracles).
//
//go:norace
func Cancelled(c Context) bool {
	if cc := findCancel(c); cc != nil {
		return cc.err != nil
	}
	return false
}

//go:norace
func (c *cancelCtx) cancel(err, cause error) {
	if c.err != nil {
		return
	}
	c.err = err
	vrt.Touch(c)
	if cause == nil {
		cause = err
	}
	c.cause = cause
	c.done.CloseNoPoint()
	if c.timer != nil {
		vrt.StopTimer(c.timer)
	}
	for i := 0; i < c.nch; i++ {
		c.children[i].cancel(err, cause)
		c.children[i] = nil
	}
	c.nch = 0
	for i := 0; i < c.nafter; i++ {
		vrt.Go(c.after[i])
		c.after[i] = nil
	}
	c.nafter = 0
}

//go:norace
func findCancel(p Context) *cancelCtx {
	for {
		switch x := p.(type) {
		case *cancelCtx:
			return x
		case *valueCtx:
			p = x.parent
		default:
			return nil
		}
	}
}

//go:norace
func newCancel(parent Context) *cancelCtx {
	if parent == nil {
		panic("cannot create context from nil parent")
	}
	c := &cancelCtx{parent: parent, done: vchan.Make[struct{}]()}
	if pc := findCancel(parent); pc != nil {
		if pc.err != nil {
			c.cancel(pc.err, pc.cause)
		} else {
			if pc.nch >= maxChildren {
				panic(vrt.CapacityError("vctx: too many child contexts"))
			}
			pc.children[pc.nch] = c
			pc.nch++
		}
	}
	return c
}

//go:norace
func (c *cancelCtx) userCancel() {
	if vrt.Aborting() {
		return
	}
	vrt.Point("ctx.cancel", nil, c)
	c.cancel(Canceled, nil)
}

//go:norace
func (c *cancelCtx) userCancelCause(cause error) {
	if vrt.Aborting() {
		return
	}
	vrt.Point("ctx.cancel", nil, c)
	c.cancel(Canceled, cause)
}

// WithCancel mirrors context.WithCancel; the returned cancel is a schedule point.
//
//go:norace
func WithCancel(parent Context) (Context, CancelFunc) {
	c := newCancel(parent)
	return c, c.userCancel
}

//go:norace
func WithCancelCause(parent Context) (Context, CancelCauseFunc) {
	c := newCancel(parent)
	return c, c.userCancelCause
}

//go:norace
func Cause(c Context) error {
	if cc := findCancel(c); cc != nil {
		vrt.Point("ctx.err", nil, cc)
		return cc.cause
	}
	return c.Err()
}

// WithDeadline mirrors context.WithDeadline on the virtual clock.
//
//go:norace
func WithDeadline(parent Context, d time.Time) (Context, CancelFunc) {
	c := newCancel(parent)
	if cur, ok := parent.Deadline(); ok && cur.Before(d) {
		// parent expires first
		return c, c.userCancel
	}
	c.deadline, c.hasDl = d, true
	dur := d.Sub(vtime.Now())
	if dur <= 0 {
		c.cancel(DeadlineExceeded, nil)
	} else if c.err == nil {
		c.timer = vrt.AddTimer(int64(dur), "ctx.deadline", c)
	}
	return c, c.userCancel
}

//go:norace
func WithTimeout(parent Context, timeout time.Duration) (Context, CancelFunc) {
	return WithDeadline(parent, vtime.Now().Add(timeout))
}

type valueCtx struct {
	parent   Context
	key, val any
}

func (v *valueCtx) Deadline() (time.Time, bool) { return v.parent.Deadline() }
func (v *valueCtx) Done() *vchan.Chan[struct{}] { return v.parent.Done() }
func (v *valueCtx) Err() error                  { return v.parent.Err() }
func (v *valueCtx) Value(key any) any {
	if key == v.key {
		return v.val
	}
	return v.parent.Value(key)
}
func (v *valueCtx) String() string { return "vctx.valueCtx" }

func WithValue(parent Context, key, val any) Context {
	if parent == nil {
		panic("cannot create context from nil parent")
	}
	if key == nil {
		panic("nil key")
	}
	return &valueCtx{parent, key, val}
}

type withoutCancel struct{ parent Context }

func (w *withoutCancel) Deadline() (time.Time, bool) { return time.Time{}, false }
func (w *withoutCancel) Done() *vchan.Chan[struct{}] { return nil }
func (w *withoutCancel) Err() error                  { return nil }
func (w *withoutCancel) Value(key any) any           { return w.parent.Value(key) }

func WithoutCancel(parent Context) Context { return &withoutCancel{parent} }

type afterStop struct {
	cc      *cancelCtx
	f       func()
	stopped bool
	ran     bool
}

func (a *afterStop) run() {
	if a.stopped {
		return
	}
	a.ran = true
	a.f()
}

//go:norace
func (a *afterStop) stop() bool {
	vrt.Point("ctx.afterfunc.stop", nil, a.cc)
	if a.ran || a.stopped {
		return false
	}
	a.stopped = true
	return true
}

func never() bool  { return false }
func always() bool { return true }

// AfterFunc mirrors context.AfterFunc.
//
//go:norace
func AfterFunc(ctx Context, f func()) (stop func() bool) {
	cc := findCancel(ctx)
	if cc == nil {
		return always
	}
	vrt.Point("ctx.afterfunc", nil, cc)
	if cc.err != nil {
		vrt.Go(f)
		return never
	}
	a := &afterStop{cc: cc, f: f}
	if cc.nafter >= len(cc.after) {
		panic(vrt.CapacityError("vctx: too many AfterFunc registrations"))
	}
	cc.after[cc.nafter] = a.run
	cc.nafter++
	return a.stop
}
