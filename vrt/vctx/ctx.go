// Package vctx stands in for package context. Done channels are model channels; cancellation and
// Err are schedule points; deadlines run on the virtual clock.
package vctx

import (
	"context"
	"time"

	"verif/vrt"
	"verif/vrt/vchan"
	"verif/vrt/vtime"
)

// Context mirrors context.Context with a model Done channel.
type Context interface {
	Deadline() (deadline time.Time, ok bool)
	Done() *vchan.Chan[struct{}]
	Err() error
	Value(key any) any
}

var (
	Canceled         = context.Canceled
	DeadlineExceeded = context.DeadlineExceeded
)

type CancelFunc func()
type CancelCauseFunc func(cause error)

type emptyCtx struct{ name string }

func (emptyCtx) Deadline() (time.Time, bool) { return time.Time{}, false }
func (emptyCtx) Done() *vchan.Chan[struct{}] { return nil }
func (emptyCtx) Err() error                  { return nil }
func (emptyCtx) Value(key any) any           { return nil }
func (e emptyCtx) String() string            { return e.name }

var (
	background = emptyCtx{"context.Background"}
	todo       = emptyCtx{"context.TODO"}
)

func Background() Context { return background }
func TODO() Context       { return todo }

type cancelCtx struct {
	parent   Context
	done     *vchan.Chan[struct{}]
	err      error
	cause    error
	children []*cancelCtx
	deadline time.Time
	hasDl    bool
	timer    *vrt.Timer
	after    []func()
}

func (c *cancelCtx) Deadline() (time.Time, bool) {
	if c.hasDl {
		return c.deadline, true
	}
	return c.parent.Deadline()
}
func (c *cancelCtx) Done() *vchan.Chan[struct{}] { return c.done }
func (c *cancelCtx) Err() error {
	vrt.Point("ctx.err", nil, c)
	return c.err
}
func (c *cancelCtx) Value(key any) any { return c.parent.Value(key) }
func (c *cancelCtx) String() string    { return "vctx.cancelCtx" }

// Cancelled reports the state without a schedule point (oracles).
func Cancelled(c Context) bool {
	if cc := findCancel(c); cc != nil {
		return cc.err != nil
	}
	return false
}

func (c *cancelCtx) cancel(err, cause error) {
	if c.err != nil {
		return
	}
	c.err = err
	vrt.Touch(c)
	if cause == nil {
		cause = err
	}
	c.cause = cause
	c.done.CloseNoPoint()
	if c.timer != nil {
		vrt.StopTimer(c.timer)
	}
	for _, ch := range c.children {
		ch.cancel(err, cause)
	}
	c.children = nil
	for _, f := range c.after {
		vrt.Go(f)
	}
	c.after = nil
}

func findCancel(p Context) *cancelCtx {
	for {
		switch x := p.(type) {
		case *cancelCtx:
			return x
		case *valueCtx:
			p = x.parent
		case *withoutCancel:
			return nil
		default:
			return nil
		}
	}
}

func newCancel(parent Context) *cancelCtx {
	if parent == nil {
		panic("cannot create context from nil parent")
	}
	c := &cancelCtx{parent: parent, done: vchan.Make[struct{}]()}
	if pc := findCancel(parent); pc != nil {
		if pc.err != nil {
			c.cancel(pc.err, pc.cause)
		} else {
			pc.children = append(pc.children, c)
		}
	}
	return c
}

// WithCancel mirrors context.WithCancel; the returned cancel is a schedule point.
func WithCancel(parent Context) (Context, CancelFunc) {
	c := newCancel(parent)
	return c, func() {
		if vrt.Aborting() {
			return
		}
		vrt.Point("ctx.cancel", nil, c)
		c.cancel(Canceled, nil)
	}
}

func WithCancelCause(parent Context) (Context, CancelCauseFunc) {
	c := newCancel(parent)
	return c, func(cause error) {
		if vrt.Aborting() {
			return
		}
		vrt.Point("ctx.cancel", nil, c)
		c.cancel(Canceled, cause)
	}
}

func Cause(c Context) error {
	if cc := findCancel(c); cc != nil {
		vrt.Point("ctx.err", nil, cc)
		return cc.cause
	}
	return c.Err()
}

// WithDeadline mirrors context.WithDeadline on the virtual clock.
func WithDeadline(parent Context, d time.Time) (Context, CancelFunc) {
	c := newCancel(parent)
	if cur, ok := parent.Deadline(); ok && cur.Before(d) {
		// parent expires first
		return c, func() {
			if vrt.Aborting() {
				return
			}
			vrt.Point("ctx.cancel", nil, c)
			c.cancel(Canceled, nil)
		}
	}
	c.deadline, c.hasDl = d, true
	dur := d.Sub(vtime.Now())
	if dur <= 0 {
		c.cancel(DeadlineExceeded, nil)
	} else if c.err == nil {
		c.timer = vrt.AddTimer(int64(dur), "ctx.deadline", func() { c.cancel(DeadlineExceeded, nil) })
	}
	return c, func() {
		if vrt.Aborting() {
			return
		}
		vrt.Point("ctx.cancel", nil, c)
		c.cancel(Canceled, nil)
	}
}

func WithTimeout(parent Context, timeout time.Duration) (Context, CancelFunc) {
	return WithDeadline(parent, vtime.Now().Add(timeout))
}

type valueCtx struct {
	parent   Context
	key, val any
}

func (v *valueCtx) Deadline() (time.Time, bool) { return v.parent.Deadline() }
func (v *valueCtx) Done() *vchan.Chan[struct{}] { return v.parent.Done() }
func (v *valueCtx) Err() error                  { return v.parent.Err() }
func (v *valueCtx) Value(key any) any {
	if key == v.key {
		return v.val
	}
	return v.parent.Value(key)
}
func (v *valueCtx) String() string { return "vctx.valueCtx" }

func WithValue(parent Context, key, val any) Context {
	if parent == nil {
		panic("cannot create context from nil parent")
	}
	if key == nil {
		panic("nil key")
	}
	return &valueCtx{parent, key, val}
}

type withoutCancel struct{ parent Context }

func (w *withoutCancel) Deadline() (time.Time, bool) { return time.Time{}, false }
func (w *withoutCancel) Done() *vchan.Chan[struct{}] { return nil }
func (w *withoutCancel) Err() error                  { return nil }
func (w *withoutCancel) Value(key any) any           { return w.parent.Value(key) }

func WithoutCancel(parent Context) Context { return &withoutCancel{parent} }

// AfterFunc mirrors context.AfterFunc.
func AfterFunc(ctx Context, f func()) (stop func() bool) {
	cc := findCancel(ctx)
	if cc == nil {
		return func() bool { return true }
	}
	vrt.Point("ctx.afterfunc", nil, cc)
	if cc.err != nil {
		vrt.Go(f)
		return func() bool { return false }
	}
	stopped := false
	ran := false
	cc.after = append(cc.after, func() {
		if stopped {
			return
		}
		ran = true
		f()
	})
	return func() bool {
		vrt.Point("ctx.afterfunc.stop", nil, cc)
		if ran || stopped {
			return false
		}
		stopped = true
		return true
	}
}
