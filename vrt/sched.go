// Package vrt is the virtual runtime: a cooperative scheduler under which every goroutine of the
// system under test runs as a "thread" that executes only while it holds the baton. All
// synchronisation shims (vsync, vatomic, vchan, vtime, vctx, vrand) funnel into Point, where the
// explorer (package mc) decides which enabled thread runs next.
//
// When no scheduler is active (S == nil) the shims run in pass-through mode: single-threaded,
// no schedule points; used by the sequential (Mode S) checks.
//
// Race-mode discipline (C17, build with -race): every function of this package and of the shim
// packages is //go:norace, never uses closures, maps, copy() or slice growth on state that several
// threads touch, and brackets every baton hand-off with runtime.RaceDisable/RaceEnable, so that the
// race detector sees exactly the happens-before edges the program under test creates itself.
package vrt

import (
	"fmt"
	"runtime/debug"
	"sort"
	"strings"
)

// Kind classifies a choice point for cost accounting in the explorer.
type Kind uint8

const (
	KThread Kind = iota // which enabled thread runs next (alt>0 while running thread enabled = preemption)
	KEnv                // environment answer (random draw); alt>0 = deviation
	KOp                 // harness-level nondeterministic choice; free
	KSelect             // which ready select case fires; free
	KClock              // order of simultaneous timer expiries; free
	KTimer              // eager clock: fire the earliest timer now although threads can run (alt 1 = fire; costs a preemption)
)

//go:norace
func (k Kind) String() string {
	return [...]string{"thread", "env", "op", "select", "clock", "timer"}[k]
}

// Chooser answers choice points. preemptive is only meaningful for KThread: true when option 0
// is the currently running thread (so that any other option costs a preemption).
type Chooser interface {
	Choose(kind Kind, n int, preemptive bool) int
}

// Enabler is the enabledness predicate of a pending operation (nil = always enabled). It is an
// interface rather than a func so that shims can implement it with //go:norace methods.
type Enabler interface{ Enabled() bool }

// EnablerFunc adapts a closure (harness use only; not race-clean).
type EnablerFunc func() bool

// Enabled implements Enabler.
func (f EnablerFunc) Enabled() bool { return f() }

// choose asks the chooser and folds the answer into the choosing thread's history where the
// choice is made by a thread (op/env/select); thread and clock choices are scheduling decisions.
//
//go:norace
func (s *Sched) choose(kind Kind, n int, preemptive bool, from *Thread) int {
	if !RaceMode {
		s.curKey = s.StateKey(kind, from)
	}
	k := s.chooser.Choose(kind, n, preemptive)
	if s.abandoned {
		if (kind == KOp || kind == KEnv || kind == KSelect) && !s.inCtl {
			// a thread is making this choice: end the execution from here and wait to be unwound
			t := s.cur
			s.finish()
			t.parked = true
			<-t.resume
			raceHandoffIn()
			panic(abortSentinel)
		}
		return 0
	}
	if kind == KOp || kind == KEnv || kind == KSelect {
		s.fold(uint64(k) + 101)
	}
	return k
}

// Abandon may be called by the chooser from inside Choose: the execution ends at this choice point
// (its continuation is known to be covered by an earlier execution).
//
//go:norace
func (s *Sched) Abandon() {
	s.abandoned = true
	s.res.Abandoned = true
}

// CurKey is the state key of the choice point being answered (valid inside Chooser.Choose).
//
//go:norace
func (s *Sched) CurKey() uint64 { return s.curKey }

// CapacityError is the panic value used when a fixed model capacity (threads, timers, waiters,
// channel queues) is exceeded, or a shim is used in a mode it does not support: that is a limit of
// the machinery, never a property violation, and ends the run with an internal error.
type CapacityError string

func (e CapacityError) Error() string { return string(e) }

type abortT struct{}

var abortSentinel = &abortT{}

// Thread is one goroutine of the system under test.
type Thread struct {
	ID     int
	Label  string
	resume chan struct{}
	en     Enabler // enabled predicate of the pending operation; nil = always enabled
	pend   bool    // a pending operation exists
	desc   string  // description of the pending operation
	done   bool
	waitQ  bool // pending op is WaitQuiescent
	parked bool
	exited chan struct{}
	Parent *Thread
	f      func()
	sched  *Sched
	ra     RaceAddr // end-of-thread -> Join edge
	// happens-before hashing (state caching in the explorer)
	stable uint64 // identity that does not depend on the interleaving
	last   uint64 // hash of the thread's latest event (its whole causal past)
	nev    uint64
	nspawn uint64
}

//go:norace
func (t *Thread) String() string {
	if t.Label != "" && !RaceMode {
		return fmt.Sprintf("T%d(%s)", t.ID, t.Label)
	}
	return fmt.Sprintf("T%d", t.ID)
}

// Done reports whether the thread function has returned.
//
//go:norace
func (t *Thread) Done() bool { return t.done }

// Pending describes the operation the thread is parked at ("" when running or done).
//
//go:norace
func (t *Thread) Pending() string {
	if t.done || !t.pend {
		return ""
	}
	return t.desc
}

//go:norace
func (t *Thread) enabled() bool {
	if !t.pend {
		return false
	}
	return t.en == nil || t.en.Enabled()
}

// Step is one entry of the labelled trace.
type Step struct {
	Thread int    `json:"t"`
	Label  string `json:"label,omitempty"`
	Op     string `json:"op"`
	Clock  int64  `json:"clock,omitempty"`
}

// Config of one execution.
type Config struct {
	EagerClock  bool  // timers may fire while threads are enabled (costs a preemption)
	MaxSteps    int   // horizon on schedule points (default 20000)
	TickPerNow  int64 // every Now() advances the clock by this much
	Trace       bool
	OnQuiescent func(s *Sched) // called (controller context) whenever no thread is enabled, before time advances
	Horizon     int64          // virtual time horizon; timers beyond it never fire (0 = none)
	Events      bool           // keep the event log
	// CoFire (lazy clock): wake-ups due at the same virtual instant are concurrent, not merely ordered —
	// after one of them fired at a quiescent state the others may fire at once (free choice), so that
	// the woken threads interleave, or at any later point while threads run (costs a preemption, like
	// an eager expiry). Without it each simultaneous wake-up runs to quiescence before the next fires.
	CoFire bool
}

// Result of one execution.
type Result struct {
	Steps     int
	Stuck     bool     // no thread enabled, no timer pending, main not finished
	StuckInfo []string // pending ops of the parked threads when stuck
	Capped    bool     // step horizon reached
	Abandoned bool     // ended early by the chooser (state already covered)
	Panic     string   // non-sentinel panic in a thread
	Internal  string   // a model capacity was exceeded (not a property violation)
	// TimersBeyondHorizon is the number of timers still pending when the execution got stuck: with
	// 0 every goroutine is blocked for good (the Go runtime would abort with "all goroutines are
	// asleep"); otherwise the program is still ticking beyond the virtual-time horizon.
	TimersBeyondHorizon int
	Trace               []Step
	EndClock            int64
	Threads             int
}

// Sched is the state of one execution.
type Sched struct {
	cfg       Config
	threads   []*Thread
	cur       *Thread
	chooser   Chooser
	clock     int64
	timers    []*Timer
	timerSeq  int
	steps     int
	aborting  bool
	inCtl     bool
	endCh     chan struct{}
	res       *Result
	ended     bool
	objSeq    int
	quiesces  int
	events    []Event
	curKey    uint64
	abandoned bool
	objLast   map[any]uint64
	global    uint64   // hash of the latest global event (timer firing, quiescence wake-up)
	endRA     RaceAddr // finishing thread -> Run edge (the harness reads the execution's results afterwards)
}

// Event is an entry of the per-execution event log that shims and harness doubles append to; the
// oracles compute violation signatures from it.
type Event struct {
	Seq    int
	Thread int
	Kind   string
	A      []int
	S      string
}

// LogEvent appends to the event log (no-op in pass-through mode or when events are off).
//
//go:norace
func LogEvent(kind string, s string, a ...int) {
	sc := S
	if sc == nil || !sc.cfg.Events {
		return
	}
	tid := -1
	if sc.cur != nil && !sc.inCtl {
		tid = sc.cur.ID
	}
	sc.events = append(sc.events, Event{Seq: len(sc.events), Thread: tid, Kind: kind, A: append([]int(nil), a...), S: s})
}

// EventsOn reports whether the event log is kept (shims skip building arguments otherwise).
//
//go:norace
func EventsOn() bool { return S != nil && S.cfg.Events }

// Events returns the event log of the execution.
//
//go:norace
func (s *Sched) Events() []Event { return s.events }

// S is the active scheduler; nil means pass-through mode.
var S *Sched

// Active reports whether code is running under the scheduler.
//
//go:norace
func Active() bool { return S != nil }

// EnvHook answers environment choices in pass-through mode (nil => always 0).
var EnvHook func(n int) int

const maxThreads = 64

// Run executes main as thread 0 under a fresh scheduler and returns when the execution ended and
// every thread has been unwound.
//
//go:norace
func Run(ch Chooser, cfg Config, main func()) *Result {
	if S != nil {
		panic("vrt.Run: nested")
	}
	if cfg.MaxSteps == 0 {
		cfg.MaxSteps = 20000
	}
	s := &Sched{cfg: cfg, chooser: ch, endCh: make(chan struct{}, 1), res: &Result{}}
	s.threads = make([]*Thread, 0, maxThreads)
	s.timers = make([]*Timer, 0, maxThreads)
	if !RaceMode {
		s.objLast = map[any]uint64{}
	}
	S = s
	t0 := s.newThread(main)
	t0.Label = "main"
	s.cur = t0
	t0.pend = false
	t0.parked = false
	raceHandoffOut()
	t0.resume <- struct{}{}
	<-s.endCh
	raceHandoffIn()
	s.endRA.Acquire()
	// unwind everything that is still parked
	s.aborting = true
	for i := 0; i < len(s.threads); i++ { // threads may not grow during abort
		t := s.threads[i]
		if t.done {
			continue
		}
		s.cur = t
		raceHandoffOut()
		t.resume <- struct{}{}
		<-t.exited
		raceHandoffIn()
	}
	s.res.Steps = s.steps
	s.res.EndClock = s.clock
	s.res.Threads = len(s.threads)
	S = nil
	return s.res
}

//go:norace
func (s *Sched) newThread(f func()) *Thread {
	if len(s.threads) >= maxThreads {
		panic(CapacityError("vrt: too many threads"))
	}
	t := &Thread{ID: len(s.threads), resume: make(chan struct{}, 1), exited: make(chan struct{}, 1), f: f, sched: s}
	t.pend = true
	t.desc = "start"
	t.parked = true
	if p := s.cur; p != nil && len(s.threads) > 0 && !s.inCtl {
		p.nspawn++
		t.stable = mix(mix(p.stable, p.last), p.nspawn)
	} else {
		// main thread, or spawned by a timer action: identified by the global event and the count so far
		t.stable = mix(mix(0x9e3779b97f4a7c15, s.global), uint64(len(s.threads)))
	}
	t.last = t.stable
	s.threads = append(s.threads, t) // within the preallocated capacity: no growth
	go t.main()
	return t
}

// main is the goroutine body of a thread.
//
//go:norace
func (t *Thread) main() {
	s := t.sched
	raceHandoffOut() // ignore synchronisation events until the baton arrives
	<-t.resume
	raceHandoffIn()
	if s.aborting {
		t.done = true
		raceHandoffOut()
		t.exited <- struct{}{}
		return
	}
	t.pend = false
	t.parked = false
	defer t.exit()
	t.f()
}

// exit is the deferred epilogue of a thread (it must call recover itself).
//
//go:norace
func (t *Thread) exit() {
	r := recover()
	s := t.sched
	t.done = true
	t.pend = false
	if s.aborting {
		raceHandoffOut()
		t.exited <- struct{}{}
		return
	}
	t.ra.Release()
	if !RaceMode {
		s.objLast[t] = mix(s.objLast[t], t.last)
	}
	if ce, ok := r.(CapacityError); ok {
		if s.res.Internal == "" {
			s.res.Internal = string(ce)
		}
		s.finish()
		return
	}
	if r != nil && r != any(abortSentinel) {
		if s.res.Panic == "" {
			s.res.Panic = fmt.Sprintf("%v\n%s", r, trimStack(string(debug.Stack())))
		}
		s.finish()
		return
	}
	if t.ID == 0 {
		s.finish()
		return
	}
	// ordinary thread end: hand the baton on
	next := s.pickNext(nil)
	if next == nil {
		s.finish()
		return
	}
	s.cur = next
	raceHandoffOut()
	next.resume <- struct{}{}
}

//go:norace
func trimStack(st string) string {
	lines := strings.Split(st, "\n")
	if len(lines) > 40 {
		lines = lines[:40]
	}
	return strings.Join(lines, "\n")
}

// finish ends the execution: wakes Run, which unwinds the rest. The calling goroutine must return
// (or park) right after. It leaves the goroutine with race synchronisation events disabled.
//
//go:norace
func (s *Sched) finish() {
	if s.ended {
		raceHandoffOut()
		return
	}
	s.ended = true
	s.endRA.Release()
	raceHandoffOut()
	s.endCh <- struct{}{}
}

// Point is a schedule point of the running thread: the pending operation is described by desc and
// is enabled when en.Enabled() is true (nil = always). Point returns when the thread has been
// chosen to run and the predicate holds (evaluated in the same atomic step).
//
//go:norace
func Point(desc string, en Enabler, objs ...any) {
	s := S
	if s == nil {
		if en != nil && !en.Enabled() {
			panic("vrt: operation would block in pass-through mode: " + desc)
		}
		return
	}
	s.point(desc, en, objs)
}

//go:norace
func mix(a, b uint64) uint64 {
	x := a ^ (b + 0x9e3779b97f4a7c15 + (a << 6) + (a >> 2))
	x ^= x >> 33
	x *= 0xff51afd7ed558ccd
	x ^= x >> 33
	x *= 0xc4ceb9fe1a85ec53
	x ^= x >> 33
	return x
}

// event folds one executed visible operation of t on objs into the happens-before hashes: the
// event's hash covers the thread's previous event and the latest event on every object it touches
// (all operations on one object are treated as dependent).
//
//go:norace
func (s *Sched) event(t *Thread, objs []any) {
	if RaceMode {
		return
	}
	t.nev++
	h := mix(mix(t.stable, t.nev), t.last)
	h = mix(h, s.global)
	for _, o := range objs {
		if o != nil {
			h = mix(h, s.objLast[o])
		}
	}
	for _, o := range objs {
		if o != nil {
			s.objLast[o] = h
		}
	}
	t.last = h
}

// Touch records a non-point effect of the running thread on obj (a release: Unlock, Done, a close
// performed inside another operation): later operations on obj depend on the thread's latest event.
//
//go:norace
func Touch(obj any) {
	s := S
	if s == nil || obj == nil || RaceMode {
		return
	}
	if s.inCtl {
		s.objLast[obj] = mix(s.objLast[obj], s.global)
		return
	}
	if t := s.cur; t != nil {
		s.objLast[obj] = mix(s.objLast[obj], t.last)
	}
}

// fold mixes a value the running thread obtained from its environment (a choice) into its history.
//
//go:norace
func (s *Sched) fold(v uint64) {
	if t := s.cur; t != nil && !s.inCtl {
		t.nev++
		t.last = mix(mix(t.last, t.nev), v)
	}
}

// globalEvent makes every later event depend on everything that happened so far (timer firing).
//
//go:norace
func (s *Sched) globalEvent(tag uint64) {
	g := mix(s.global, tag)
	for _, t := range s.threads {
		g = mix(g, t.last)
	}
	s.global = g
}

// StateKey identifies the global state at a choice point up to commutation of independent
// operations: the causal histories of all threads, which thread holds the baton, and the kind of
// choice being made.
//
//go:norace
func (s *Sched) StateKey(kind Kind, from *Thread) uint64 {
	var sum, xor uint64
	for _, t := range s.threads {
		v := mix(t.stable, t.last)
		if t.done {
			v = mix(v, 1)
		}
		if t.waitQ {
			v = mix(v, 2)
		}
		// order-independent combination over threads keyed by their stable ids (already mixed in)
		sum += v
		xor ^= mix(v, 0x1234567)
	}
	k := mix(mix(sum, xor), s.global)
	k = mix(k, uint64(kind)+17)
	if from != nil {
		k = mix(k, from.stable)
	} else {
		k = mix(k, 0xdead)
	}
	return mix(k, uint64(s.clock))
}

//go:norace
func (s *Sched) point(desc string, en Enabler, objs []any) {
	if s.inCtl {
		if en != nil && !en.Enabled() {
			panic(ctlBlocked{desc})
		}
		return
	}
	if s.aborting {
		panic(abortSentinel)
	}
	t := s.cur
	t.en = en
	t.pend = true
	t.desc = desc
	next := s.pickNext(t)
	if next != t {
		t.parked = true
		if next == nil {
			s.finish()
		} else {
			s.cur = next
			raceHandoffOut()
			next.resume <- struct{}{}
		}
		<-t.resume
		raceHandoffIn()
		t.parked = false
		if s.aborting {
			panic(abortSentinel)
		}
	}
	t.en = nil
	t.pend = false
	if t.waitQ {
		t.waitQ = false
		s.globalEvent(7)
	}
	s.event(t, objs)
	if s.cfg.Trace {
		s.res.Trace = append(s.res.Trace, Step{Thread: t.ID, Label: t.Label, Op: desc, Clock: s.clock})
	}
}

type ctlBlocked struct{ desc string }

// pickNext decides which thread runs next. from is the thread that has just parked (nil if the
// caller is finishing). Returns nil when the execution is over (stuck or capped).
//
//go:norace
func (s *Sched) pickNext(from *Thread) *Thread {
	declined := false // CoFire: the due wake-ups were just offered and left for later
	for {
		if s.abandoned {
			return nil
		}
		s.steps++
		if s.steps > s.cfg.MaxSteps {
			s.res.Capped = true
			return nil
		}
		var opts [maxThreads]*Thread
		n := 0
		if from != nil && !from.done && !from.waitQ && from.enabled() {
			opts[n] = from
			n++
		}
		preemptive := n == 1
		for _, t := range s.threads {
			if t == from || t.done || !t.pend || t.waitQ {
				continue
			}
			if t.enabled() {
				opts[n] = t
				n++
			}
		}
		if n == 0 {
			// quiescent: nothing can run
			s.quiesces++
			if s.cfg.OnQuiescent != nil {
				old := s.inCtl
				s.inCtl = true
				s.cfg.OnQuiescent(s)
				s.inCtl = old
			}
			var qw [maxThreads]*Thread
			nq := 0
			for _, t := range s.threads {
				if !t.done && t.waitQ {
					qw[nq] = t
					nq++
				}
			}
			if nq > 0 {
				k := 0
				if nq > 1 {
					k = s.choose(KThread, nq, false, from)
					if s.abandoned {
						return nil
					}
				}
				qw[k].waitQ = false
				return qw[k]
			}
			if s.timerPending() {
				s.fireEarliest()
				for s.cfg.CoFire && !s.abandoned && s.timerDue() {
					// (a free choice of its own kind: the eager question below would otherwise be asked in
					// the very same state, under the same key)
					if s.choose(KClock, 2, false, from) != 1 || s.abandoned {
						declined = true
						break
					}
					s.fireEarliest()
				}
				if s.abandoned {
					return nil
				}
				continue
			}
			s.res.Stuck = true
			s.res.TimersBeyondHorizon = len(s.timers)
			for _, t := range s.threads {
				if !t.done {
					s.res.StuckInfo = append(s.res.StuckInfo, t.String()+": "+t.desc)
				}
			}
			return nil
		}
		if (s.cfg.EagerClock && s.timerPending()) || (s.cfg.CoFire && !declined && s.timerDue()) {
			// eager clock: a pending timer may expire now, while threads can still run
			if s.choose(KTimer, 2, true, from) == 1 {
				if s.abandoned {
					return nil
				}
				s.fireEarliest()
				continue
			}
			if s.abandoned {
				return nil
			}
		}
		k := 0
		if n > 1 {
			k = s.choose(KThread, n, preemptive, from)
			if s.abandoned {
				return nil
			}
		}
		return opts[k]
	}
}

// Go starts f as a new thread.
//
//go:norace
func Go(f func()) *Thread {
	s := S
	if s == nil {
		panic(CapacityError("vrt.Go outside scheduler (goroutines are not modelled in pass-through mode)"))
	}
	if s.aborting {
		panic(abortSentinel)
	}
	t := s.newThread(f)
	if !s.inCtl {
		t.Parent = s.cur
	}
	return t
}

// GoL starts a labelled thread.
//
//go:norace
func GoL(label string, f func()) *Thread {
	t := Go(f)
	t.Label = label
	return t
}

// Self returns the running thread (nil in pass-through mode).
//
//go:norace
func Self() *Thread {
	if S == nil {
		return nil
	}
	return S.cur
}

// SetLabel labels the running thread.
//
//go:norace
func SetLabel(l string) {
	if S != nil && S.cur != nil {
		S.cur.Label = l
	}
}

// Yield is a plain schedule point.
//
//go:norace
func Yield() { Point("yield", nil) }

type threadDone Thread

//go:norace
func (t *threadDone) Enabled() bool { return t.done }

// Join blocks until all given threads have finished.
//
//go:norace
func Join(ts ...*Thread) {
	for _, t := range ts {
		Point("join", (*threadDone)(t), t)
		t.ra.Acquire()
	}
}

// WaitQuiescent parks the caller until no other thread is enabled (pending timers do not count).
//
//go:norace
func WaitQuiescent() {
	s := S
	if s == nil {
		return
	}
	if s.inCtl {
		return
	}
	if s.aborting {
		panic(abortSentinel)
	}
	t := s.cur
	t.waitQ = true
	s.point("wait-quiescent", nil, nil)
}

// Choose is a harness-level nondeterministic choice in [0,n).
//
//go:norace
func Choose(n int) int {
	if n <= 1 {
		return 0
	}
	if S == nil {
		panic("vrt.Choose outside scheduler")
	}
	return S.choose(KOp, n, false, S.cur)
}

// ChooseSelect picks among n ready select cases.
//
//go:norace
func ChooseSelect(n int) int {
	if n <= 1 || S == nil {
		return 0
	}
	return S.choose(KSelect, n, false, S.cur)
}

// EnvChoose is an environment answer in [0,n); alternatives > 0 cost a deviation.
//
//go:norace
func EnvChoose(n int) int {
	if n <= 1 {
		return 0
	}
	if S == nil {
		if EnvHook != nil {
			return EnvHook(n)
		}
		return 0
	}
	return S.choose(KEnv, n, false, S.cur)
}

// Aborting reports whether the execution is being unwound (shims turn into no-ops).
//
//go:norace
func Aborting() bool { return S != nil && S.aborting }

// InCtl reports controller context.
//
//go:norace
func InCtl() bool { return S != nil && S.inCtl }

// NextObjID hands out small per-execution object ids for trace descriptions.
//
//go:norace
func NextObjID() int {
	if S == nil {
		return 0
	}
	S.objSeq++
	return S.objSeq
}

// Threads returns the threads of the active execution.
//
//go:norace
func (s *Sched) Threads() []*Thread { return s.threads }

// Clock returns the virtual clock in ns.
//
//go:norace
func (s *Sched) Clock() int64 { return s.clock }

// Quiesces returns how many quiescent states were seen.
//
//go:norace
func (s *Sched) Quiesces() int { return s.quiesces }

// Blocked lists the parked, not-enabled threads (label: pending op), sorted.
//
//go:norace
func (s *Sched) Blocked() []string {
	var out []string
	for _, t := range s.threads {
		if !t.done && t.pend && !t.waitQ && !t.enabled() {
			out = append(out, t.String()+": "+t.desc)
		}
	}
	sort.Strings(out)
	return out
}

// TryCtl runs f in controller context and reports false if a shim operation would have blocked.
//
//go:norace
func (s *Sched) TryCtl(f func()) (ok bool) {
	old := s.inCtl
	s.inCtl = true
	ok = true
	defer s.tryCtlEnd(old, &ok)
	f()
	return ok
}

//go:norace
func (s *Sched) tryCtlEnd(old bool, ok *bool) {
	s.inCtl = old
	if r := recover(); r != nil {
		if _, is := r.(ctlBlocked); is {
			*ok = false
			return
		}
		panic(r)
	}
}
