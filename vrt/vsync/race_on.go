//go:build race

package vsync

import "sync"

// In race mode the shims perform the real operation after the scheduler has granted the step (it
// can never block then), so that the race detector sees the program's own happens-before edges.

type realMutex struct{ mu sync.Mutex }

//go:norace
func (r *realMutex) lock() { r.mu.Lock() }

//go:norace
func (r *realMutex) unlock() { r.mu.Unlock() }

type realRWMutex struct{ mu sync.RWMutex }

//go:norace
func (r *realRWMutex) lock() { r.mu.Lock() }

//go:norace
func (r *realRWMutex) unlock() { r.mu.Unlock() }

//go:norace
func (r *realRWMutex) rlock() { r.mu.RLock() }

//go:norace
func (r *realRWMutex) runlock() { r.mu.RUnlock() }
