//go:build !race

package vsync

type realMutex struct{}

func (*realMutex) lock()   {}
func (*realMutex) unlock() {}

type realRWMutex struct{}

func (*realRWMutex) lock()    {}
func (*realRWMutex) unlock()  {}
func (*realRWMutex) rlock()   {}
func (*realRWMutex) runlock() {}
