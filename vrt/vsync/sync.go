// Package vsync stands in for package sync when repository code is compiled through the overlay.
// Every acquiring operation is a schedule point of the virtual runtime; releases update the model
// state without a point (a release is a left-mover). See package vrt for the race-mode discipline
// (//go:norace everywhere, no closures, no slice growth on shared state).
package vsync

import (
	"fmt"

	"verif/vrt"
)

// Locker mirrors sync.Locker.
type Locker interface {
	Lock()
	Unlock()
}

// Mutex mirrors sync.Mutex. The zero value is an unlocked mutex.
type Mutex struct {
	held  bool
	owner *vrt.Thread
	rm    realMutex
}

type mutexFree Mutex

//go:norace
func (m *mutexFree) Enabled() bool { return !m.held }

// Lock is a schedule point; enabled while the mutex is free.
//
//go:norace
func (m *Mutex) Lock() {
	vrt.Point("mutex.lock", (*mutexFree)(m), m)
	m.held = true
	m.owner = vrt.Self()
	m.rm.lock()
}

// TryLock is a schedule point that never blocks.
//
//go:norace
func (m *Mutex) TryLock() bool {
	vrt.Point("mutex.trylock", nil, m)
	if m.held {
		return false
	}
	m.held = true
	m.owner = vrt.Self()
	m.rm.lock()
	return true
}

// Unlock releases the mutex (no schedule point).
//
//go:norace
func (m *Mutex) Unlock() {
	if vrt.Aborting() {
		return
	}
	if !m.held {
		panic("sync: unlock of unlocked mutex")
	}
	m.rm.unlock()
	m.held = false
	m.owner = nil
	vrt.Touch(m)
}

// Held reports the model state (for oracles in controller context).
//
//go:norace
func (m *Mutex) Held() bool { return m.held }

// RWMutex mirrors sync.RWMutex including the runtime's writer preference: once a writer has called
// Lock (it holds the internal writer mutex and has announced itself), new readers block until that
// writer has unlocked, while the writer waits for the readers already inside. A recursive read lock
// taken while a writer is pending therefore deadlocks, as it does under the real runtime. A reader
// parked behind a writer does nothing observable until it gets the lock, so treating it as arriving
// after the writer's Unlock (it may be overtaken by the next writer) admits exactly the runtime's
// observable behaviours.
type RWMutex struct {
	pend    bool // a writer holds the writer mutex: pending or active
	w       bool // the writer is inside
	readers int
	rm      realRWMutex
}

type rwCanAnnounce RWMutex
type rwDrained RWMutex
type rwCanR RWMutex

//go:norace
func (m *rwCanAnnounce) Enabled() bool { return !m.pend }

//go:norace
func (m *rwDrained) Enabled() bool { return m.readers == 0 }

//go:norace
func (m *rwCanR) Enabled() bool { return !m.pend }

//go:norace
func (m *RWMutex) Lock() {
	vrt.Point("rwmutex.lock", (*rwCanAnnounce)(m), m)
	m.pend = true
	if m.readers != 0 {
		vrt.Point("rwmutex.lock.drain", (*rwDrained)(m), m)
	}
	m.w = true
	m.rm.lock()
}

//go:norace
func (m *RWMutex) TryLock() bool {
	vrt.Point("rwmutex.trylock", nil, m)
	if m.pend || m.readers != 0 {
		return false
	}
	m.pend, m.w = true, true
	m.rm.lock()
	return true
}

//go:norace
func (m *RWMutex) Unlock() {
	if vrt.Aborting() {
		return
	}
	if !m.w {
		panic("sync: Unlock of unlocked RWMutex")
	}
	m.rm.unlock()
	m.w, m.pend = false, false
	vrt.Touch(m)
}

//go:norace
func (m *RWMutex) RLock() {
	vrt.Point("rwmutex.rlock", (*rwCanR)(m), m)
	m.readers++
	m.rm.rlock()
}

//go:norace
func (m *RWMutex) TryRLock() bool {
	vrt.Point("rwmutex.tryrlock", nil, m)
	if m.pend {
		return false
	}
	m.readers++
	m.rm.rlock()
	return true
}

//go:norace
func (m *RWMutex) RUnlock() {
	if vrt.Aborting() {
		return
	}
	if m.readers <= 0 {
		panic("sync: RUnlock of unlocked RWMutex")
	}
	m.rm.runlock()
	m.readers--
	vrt.Touch(m)
}

type rlocker RWMutex

//go:norace
func (r *rlocker) Lock() { (*RWMutex)(r).RLock() }

//go:norace
func (r *rlocker) Unlock() { (*RWMutex)(r).RUnlock() }

// RLocker mirrors (*sync.RWMutex).RLocker.
//
//go:norace
func (m *RWMutex) RLocker() Locker { return (*rlocker)(m) }

const maxWaiters = 32

// Cond mirrors sync.Cond: no spurious wake-ups, Signal wakes the longest waiter. As with the real
// sync.Cond, Signal/Broadcast by themselves order nothing for the race detector; the ordering
// comes from L.
type Cond struct {
	L       Locker
	waiters [maxWaiters]*condWaiter
	n       int
}

type condWaiter struct {
	signaled bool
	t        *vrt.Thread
}

//go:norace
func (w *condWaiter) Enabled() bool { return w.signaled }

// NewCond mirrors sync.NewCond.
//
//go:norace
func NewCond(l Locker) *Cond { return &Cond{L: l} }

// Wait atomically registers the caller, releases L, parks until signalled and re-acquires L.
//
//go:norace
func (c *Cond) Wait() {
	if vrt.Aborting() {
		vrt.Point("cond.wait", nil)
	}
	if c.n >= maxWaiters {
		panic(vrt.CapacityError("vsync: too many condition waiters"))
	}
	w := &condWaiter{t: vrt.Self()}
	c.waiters[c.n] = w
	c.n++
	vrt.Touch(c)
	c.L.Unlock()
	vrt.Point("cond.wait", w, c)
	c.L.Lock()
}

//go:norace
func (c *Cond) logWake(kind string, only *condWaiter) {
	if !vrt.EventsOn() {
		return
	}
	// [number woken, woken thread ids..., -1, registered-but-not-woken ids...]
	var woken, rest []int
	for i := 0; i < c.n; i++ {
		w := c.waiters[i]
		id := -1
		if w.t != nil {
			id = w.t.ID
		}
		if only == nil || w == only {
			woken = append(woken, id)
		} else {
			rest = append(rest, id)
		}
	}
	out := append([]int{len(woken)}, woken...)
	out = append(out, -1)
	out = append(out, rest...)
	vrt.LogEvent("cond.wake", kind, out...)
}

// Signal is a schedule point; wakes the oldest waiter if any.
//
//go:norace
func (c *Cond) Signal() {
	vrt.Point("cond.signal", nil, c)
	if c.n == 0 {
		if vrt.EventsOn() {
			vrt.LogEvent("cond.wake", "signal", 0)
		}
		return
	}
	w := c.waiters[0]
	c.logWake("signal", w)
	w.signaled = true
	for i := 0; i+1 < c.n; i++ {
		c.waiters[i] = c.waiters[i+1]
	}
	c.n--
	c.waiters[c.n] = nil
}

// Broadcast is a schedule point; wakes every registered waiter.
//
//go:norace
func (c *Cond) Broadcast() {
	vrt.Point("cond.broadcast", nil, c)
	c.logWake("broadcast", nil)
	for i := 0; i < c.n; i++ {
		c.waiters[i].signaled = true
		c.waiters[i] = nil
	}
	c.n = 0
}

// Waiting returns the number of registered waiters (for oracles).
//
//go:norace
func (c *Cond) Waiting() int { return c.n }

// WaitGroup mirrors sync.WaitGroup.
type WaitGroup struct {
	n  int
	ra vrt.RaceAddr
}

type wgZero WaitGroup

//go:norace
func (wg *wgZero) Enabled() bool { return wg.n == 0 }

//go:norace
func (wg *WaitGroup) Add(delta int) {
	if vrt.Aborting() {
		return
	}
	if delta < 0 {
		wg.ra.Release()
	}
	wg.n += delta
	vrt.Touch(wg)
	if wg.n < 0 {
		panic("sync: negative WaitGroup counter")
	}
}

//go:norace
func (wg *WaitGroup) Done() { wg.Add(-1) }

// Go mirrors the newer (*sync.WaitGroup).Go.
func (wg *WaitGroup) Go(f func()) {
	wg.Add(1)
	vrt.Go(func() {
		defer wg.Done()
		f()
	})
}

//go:norace
func (wg *WaitGroup) Wait() {
	vrt.Point("waitgroup.wait", (*wgZero)(wg), wg)
	wg.ra.Acquire()
}

// Once mirrors sync.Once.
type Once struct {
	done    bool
	running bool
	ra      vrt.RaceAddr
}

type onceIdle Once

//go:norace
func (o *onceIdle) Enabled() bool { return !o.running }

//go:norace
func (o *Once) finish() {
	o.done = true
	o.running = false
	vrt.Touch(o)
	o.ra.Release()
}

//go:norace
func (o *Once) Do(f func()) {
	vrt.Point("once.do", (*onceIdle)(o), o)
	if o.done {
		o.ra.Acquire()
		return
	}
	o.running = true
	defer o.finish()
	f()
}

// Map mirrors the commonly used part of sync.Map (each method is one atomic visible operation).
// Not race-clean (uses a Go map); the repository does not use sync.Map.
type Map struct {
	m  map[any]any
	ra vrt.RaceAddr
}

func (m *Map) Load(key any) (any, bool) {
	vrt.Point("syncmap.load", nil, m)
	m.ra.Acquire()
	v, ok := m.m[key]
	return v, ok
}

func (m *Map) Store(key, value any) {
	vrt.Point("syncmap.store", nil, m)
	if m.m == nil {
		m.m = map[any]any{}
	}
	m.m[key] = value
	m.ra.Release()
}

func (m *Map) LoadOrStore(key, value any) (any, bool) {
	vrt.Point("syncmap.loadorstore", nil, m)
	m.ra.Acquire()
	if v, ok := m.m[key]; ok {
		return v, true
	}
	if m.m == nil {
		m.m = map[any]any{}
	}
	m.m[key] = value
	m.ra.Release()
	return value, false
}

func (m *Map) LoadAndDelete(key any) (any, bool) {
	vrt.Point("syncmap.loadanddelete", nil, m)
	m.ra.Acquire()
	v, ok := m.m[key]
	delete(m.m, key)
	m.ra.Release()
	return v, ok
}

func (m *Map) Delete(key any) {
	vrt.Point("syncmap.delete", nil, m)
	delete(m.m, key)
	m.ra.Release()
}

func (m *Map) Range(f func(key, value any) bool) {
	vrt.Point("syncmap.range", nil, m)
	m.ra.Acquire()
	type kv struct{ k, v any }
	var all []kv
	for k, v := range m.m {
		all = append(all, kv{k, v})
	}
	// deterministic order
	for i := range all {
		for j := i + 1; j < len(all); j++ {
			if fmt.Sprint(all[j].k) < fmt.Sprint(all[i].k) {
				all[i], all[j] = all[j], all[i]
			}
		}
	}
	for _, e := range all {
		if !f(e.k, e.v) {
			return
		}
	}
}

// Pool mirrors sync.Pool without caching (always allocates), which is a legal behaviour.
type Pool struct {
	New func() any
}

func (p *Pool) Get() any {
	if p.New != nil {
		return p.New()
	}
	return nil
}

func (p *Pool) Put(x any) {}

// OnceFunc / OnceValue mirror the sync helpers.
func OnceFunc(f func()) func() {
	var o Once
	return func() { o.Do(f) }
}

func OnceValue[T any](f func() T) func() T {
	var o Once
	var v T
	return func() T {
		o.Do(func() { v = f() })
		return v
	}
}
