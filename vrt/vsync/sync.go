// Package vsync stands in for package sync when repository code is compiled through the overlay.
// Every acquiring operation is a schedule point of the virtual runtime; releases update the model
// state without a point (a release is a left-mover).
package vsync

import (
	"fmt"

	"verif/vrt"
)

// Locker mirrors sync.Locker.
type Locker interface {
	Lock()
	Unlock()
}

// Mutex mirrors sync.Mutex. The zero value is an unlocked mutex.
type Mutex struct {
	held  bool
	owner *vrt.Thread
	rm    realMutex
}

func (m *Mutex) free() bool { return !m.held }

// Lock is a schedule point; enabled while the mutex is free.
func (m *Mutex) Lock() {
	vrt.Point("mutex.lock", m.free, m)
	m.held = true
	m.owner = vrt.Self()
	m.rm.lock()
}

// TryLock is a schedule point that never blocks.
func (m *Mutex) TryLock() bool {
	vrt.Point("mutex.trylock", nil, m)
	if m.held {
		return false
	}
	m.held = true
	m.owner = vrt.Self()
	m.rm.lock()
	return true
}

// Unlock releases the mutex (no schedule point).
func (m *Mutex) Unlock() {
	if vrt.Aborting() {
		return
	}
	if !m.held {
		panic("sync: unlock of unlocked mutex")
	}
	m.rm.unlock()
	m.held = false
	m.owner = nil
	vrt.Touch(m)
}

// Held reports the model state (for oracles in controller context).
func (m *Mutex) Held() bool { return m.held }

// RWMutex mirrors sync.RWMutex (writer preference is not modelled, which admits a superset of the
// runtime's critical-section orders).
type RWMutex struct {
	w       bool
	readers int
	rm      realRWMutex
}

func (m *RWMutex) canW() bool { return !m.w && m.readers == 0 }
func (m *RWMutex) canR() bool { return !m.w }

func (m *RWMutex) Lock() {
	vrt.Point("rwmutex.lock", m.canW, m)
	m.w = true
	m.rm.lock()
}

func (m *RWMutex) TryLock() bool {
	vrt.Point("rwmutex.trylock", nil, m)
	if !m.canW() {
		return false
	}
	m.w = true
	m.rm.lock()
	return true
}

func (m *RWMutex) Unlock() {
	if vrt.Aborting() {
		return
	}
	if !m.w {
		panic("sync: Unlock of unlocked RWMutex")
	}
	m.rm.unlock()
	m.w = false
	vrt.Touch(m)
}

func (m *RWMutex) RLock() {
	vrt.Point("rwmutex.rlock", m.canR, m)
	m.readers++
	m.rm.rlock()
}

func (m *RWMutex) TryRLock() bool {
	vrt.Point("rwmutex.tryrlock", nil, m)
	if !m.canR() {
		return false
	}
	m.readers++
	m.rm.rlock()
	return true
}

func (m *RWMutex) RUnlock() {
	if vrt.Aborting() {
		return
	}
	if m.readers <= 0 {
		panic("sync: RUnlock of unlocked RWMutex")
	}
	m.rm.runlock()
	m.readers--
	vrt.Touch(m)
}

type rlocker RWMutex

func (r *rlocker) Lock()   { (*RWMutex)(r).RLock() }
func (r *rlocker) Unlock() { (*RWMutex)(r).RUnlock() }

// RLocker mirrors (*sync.RWMutex).RLocker.
func (m *RWMutex) RLocker() Locker { return (*rlocker)(m) }

// Cond mirrors sync.Cond: no spurious wake-ups, Signal wakes the longest waiter.
type Cond struct {
	L       Locker
	waiters []*condWaiter
	// Stats for oracles: number of waiters registered at each Signal/Broadcast.
	Wakes []int
	ra    vrt.RaceAddr
}

type condWaiter struct {
	signaled bool
	t        *vrt.Thread
}

func (w *condWaiter) ready() bool { return w.signaled }

// NewCond mirrors sync.NewCond.
func NewCond(l Locker) *Cond { return &Cond{L: l} }

// Wait atomically registers the caller, releases L, parks until signalled and re-acquires L.
func (c *Cond) Wait() {
	if vrt.Aborting() {
		vrt.Point("cond.wait", nil)
	}
	w := &condWaiter{t: vrt.Self()}
	c.waiters = append(c.waiters, w)
	vrt.Touch(c)
	c.L.Unlock()
	vrt.Point("cond.wait", w.ready, c)
	c.ra.Acquire()
	c.L.Lock()
}

// Signal is a schedule point; wakes the oldest waiter if any.
func (c *Cond) Signal() {
	vrt.Point("cond.signal", nil, c)
	c.Wakes = append(c.Wakes, c.nWaiting())
	c.ra.Release()
	for i, w := range c.waiters {
		if !w.signaled {
			w.signaled = true
			vrt.LogEvent("cond.wake", "signal", c.ids(w)...)
			c.waiters = append(c.waiters[:i:i], c.waiters[i+1:]...)
			return
		}
	}
	vrt.LogEvent("cond.wake", "signal", 0)
}

// ids renders a wake event: [number woken, woken thread ids..., -1, registered-but-not-woken ids...].
func (c *Cond) ids(only *condWaiter) []int {
	var woken, rest []int
	for _, w := range c.waiters {
		id := -1
		if w.t != nil {
			id = w.t.ID
		}
		if only == nil || w == only {
			woken = append(woken, id)
		} else {
			rest = append(rest, id)
		}
	}
	out := append([]int{len(woken)}, woken...)
	out = append(out, -1)
	return append(out, rest...)
}

// Broadcast is a schedule point; wakes every registered waiter.
func (c *Cond) Broadcast() {
	vrt.Point("cond.broadcast", nil, c)
	c.Wakes = append(c.Wakes, c.nWaiting())
	c.ra.Release()
	vrt.LogEvent("cond.wake", "broadcast", c.ids(nil)...)
	for _, w := range c.waiters {
		w.signaled = true
	}
	c.waiters = nil
}

func (c *Cond) nWaiting() int { return len(c.waiters) }

// Waiting returns the number of registered waiters (for oracles).
func (c *Cond) Waiting() int { return len(c.waiters) }

// WaitGroup mirrors sync.WaitGroup.
type WaitGroup struct {
	n  int
	ra vrt.RaceAddr
}

func (wg *WaitGroup) zero() bool { return wg.n == 0 }

func (wg *WaitGroup) Add(delta int) {
	if vrt.Aborting() {
		return
	}
	if delta < 0 {
		wg.ra.Release()
	}
	wg.n += delta
	vrt.Touch(wg)
	if wg.n < 0 {
		panic("sync: negative WaitGroup counter")
	}
}

func (wg *WaitGroup) Done() { wg.Add(-1) }

// Go mirrors the newer (*sync.WaitGroup).Go.
func (wg *WaitGroup) Go(f func()) {
	wg.Add(1)
	vrt.Go(func() {
		defer wg.Done()
		f()
	})
}

func (wg *WaitGroup) Wait() {
	vrt.Point("waitgroup.wait", wg.zero, wg)
	wg.ra.Acquire()
}

// Once mirrors sync.Once.
type Once struct {
	done    bool
	running bool
	ra      vrt.RaceAddr
}

func (o *Once) notRunning() bool { return !o.running }

func (o *Once) Do(f func()) {
	vrt.Point("once.do", o.notRunning, o)
	if o.done {
		o.ra.Acquire()
		return
	}
	o.running = true
	defer func() {
		o.done = true
		o.running = false
		vrt.Touch(o)
		o.ra.Release()
	}()
	f()
}

// Map mirrors the commonly used part of sync.Map (each method is one atomic visible operation).
type Map struct {
	m  map[any]any
	ra vrt.RaceAddr
}

func (m *Map) Load(key any) (any, bool) {
	vrt.Point("syncmap.load", nil, m)
	m.ra.Acquire()
	v, ok := m.m[key]
	return v, ok
}

func (m *Map) Store(key, value any) {
	vrt.Point("syncmap.store", nil, m)
	if m.m == nil {
		m.m = map[any]any{}
	}
	m.m[key] = value
	m.ra.Release()
}

func (m *Map) LoadOrStore(key, value any) (any, bool) {
	vrt.Point("syncmap.loadorstore", nil, m)
	m.ra.Acquire()
	if v, ok := m.m[key]; ok {
		return v, true
	}
	if m.m == nil {
		m.m = map[any]any{}
	}
	m.m[key] = value
	m.ra.Release()
	return value, false
}

func (m *Map) LoadAndDelete(key any) (any, bool) {
	vrt.Point("syncmap.loadanddelete", nil, m)
	m.ra.Acquire()
	v, ok := m.m[key]
	delete(m.m, key)
	m.ra.Release()
	return v, ok
}

func (m *Map) Delete(key any) {
	vrt.Point("syncmap.delete", nil, m)
	delete(m.m, key)
	m.ra.Release()
}

func (m *Map) Range(f func(key, value any) bool) {
	vrt.Point("syncmap.range", nil, m)
	m.ra.Acquire()
	type kv struct{ k, v any }
	var all []kv
	for k, v := range m.m {
		all = append(all, kv{k, v})
	}
	// deterministic order
	for i := range all {
		for j := i + 1; j < len(all); j++ {
			if fmt.Sprint(all[j].k) < fmt.Sprint(all[i].k) {
				all[i], all[j] = all[j], all[i]
			}
		}
	}
	for _, e := range all {
		if !f(e.k, e.v) {
			return
		}
	}
}

// Pool mirrors sync.Pool without caching (always allocates), which is a legal behaviour.
type Pool struct {
	New func() any
}

func (p *Pool) Get() any {
	if p.New != nil {
		return p.New()
	}
	return nil
}

func (p *Pool) Put(x any) {}

// OnceFunc / OnceValue mirror the sync helpers.
func OnceFunc(f func()) func() {
	var o Once
	return func() { o.Do(f) }
}

func OnceValue[T any](f func() T) func() T {
	var o Once
	var v T
	return func() T {
		o.Do(func() { v = f() })
		return v
	}
}
